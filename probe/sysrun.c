// sysrun: freestanding (no libc, no start-up syscalls) executor of raw syscall scripts.
// The script is read from fd 0, one op per line; results are logged on fd 1 as "<line> <ret>\n".
//   S <text>            add a string to the table ($0, $1, ...)
//   C $i                chdir to string i
//   X nr a0 .. a5       raw syscall; args: integer (dec / 0x hex / negative) | $i | @special
//   M n                 marker: access("/@@<n>", 0)  (a traced path syscall whose path carries n)
//   F / V / T           start a forked / vforked / thread sub-script (ends at E); the parent skips to the matching E
//   E                   end of sub-script (the sub-process / thread exits)
//   J                   join: wait until every thread sub-script started so far has ended
//   W                   wait for all children
//   Y                   sleep 20 ms
//   Q code              exit_group(code)
//   D sel               load the data segment registers %ds and %es with selector sel (a program may load selectors,
//                       e.g. 0x28 = the user data descriptor with RPL 0, that ptrace refuses to write back)
// specials: @null @unmapped @kernel @odd @nonul<N> @edge$i @cross$i @st1$i @stm$i @stl$i @stn$i @wo$i @xo$i @how<flags>/<mode>/<resolve> @howbad @howshort
// Built with: gcc -static -nostdlib -O1 -fno-stack-protector
typedef unsigned long u64;
typedef long i64;

static inline i64 sc6(i64 n, i64 a, i64 b, i64 c, i64 d, i64 e, i64 f) {
  i64 ret;
  register i64 r10 __asm__("r10") = d;
  register i64 r8 __asm__("r8") = e;
  register i64 r9 __asm__("r9") = f;
  __asm__ volatile("syscall" : "=a"(ret) : "a"(n), "D"(a), "S"(b), "d"(c), "r"(r10), "r"(r8), "r"(r9) : "rcx", "r11", "memory");
  return ret;
}
#define SC(n, a, b, c) sc6(n, (i64)(a), (i64)(b), (i64)(c), 0, 0, 0)

enum { NR_read = 0, NR_write = 1, NR_mmap = 9, NR_mprotect = 10, NR_access = 21, NR_nanosleep = 35, NR_getpid = 39, NR_clone = 56, NR_fork = 57,
       NR_vfork = 58, NR_exit = 60, NR_wait4 = 61, NR_chdir = 80, NR_exit_group = 231 };

void *memset(void *d, int c, u64 n) {
  char *p = d;
  while (n--) *p++ = c;
  return d;
}
void *memcpy(void *d, const void *s, u64 n) {
  char *p = d;
  const char *q = s;
  while (n--) *p++ = *q++;
  return d;
}

#define MAXSCRIPT (96 << 20)
static char *script;
static long slen;
static char *strs[1 << 17];
static int nstr;
static char *arena, *arena_end; // bump allocator inside one mapping
static char *guard;             // PROT_NONE page
static volatile int threads_started, threads_done;

static long slen_(const char *s) {
  long n = 0;
  while (s[n]) n++;
  return n;
}
static void *alloc(long n) {
  char *p = arena;
  arena += (n + 15) & ~15L;
  return p;
}
static void out_num(char *b, int *p, i64 v) {
  char t[24];
  int n = 0;
  u64 u = v < 0 ? -(u64)v : (u64)v;
  if (v < 0) b[(*p)++] = '-';
  do {
    t[n++] = '0' + u % 10;
    u /= 10;
  } while (u);
  while (n) b[(*p)++] = t[--n];
}
static void logret(long line, i64 ret) {
  char b[64];
  int p = 0;
  out_num(b, &p, line);
  b[p++] = ' ';
  out_num(b, &p, ret);
  b[p++] = '\n';
  SC(NR_write, 1, b, p);
}
static i64 parse_int(const char *s, const char **end) {
  int neg = 0;
  u64 v = 0;
  if (*s == '-') neg = 1, s++;
  if (s[0] == '0' && (s[1] == 'x' || s[1] == 'X')) {
    s += 2;
    for (;; s++) {
      int d;
      if (*s >= '0' && *s <= '9') d = *s - '0';
      else if (*s >= 'a' && *s <= 'f') d = *s - 'a' + 10;
      else if (*s >= 'A' && *s <= 'F') d = *s - 'A' + 10;
      else break;
      v = v * 16 + d;
    }
  } else
    while (*s >= '0' && *s <= '9') v = v * 10 + (*s++ - '0');
  if (end) *end = s;
  return neg ? -(i64)v : (i64)v;
}
static int starts(const char *s, const char *p) {
  while (*p)
    if (*s++ != *p++) return 0;
  return 1;
}
// a fresh region of `n` mapped bytes that ends exactly at a PROT_NONE page
static char *before_guard(long n) {
  long pages = (n + 4095) / 4096 + 1;
  char *m = (char *)sc6(NR_mmap, 0, pages * 4096, 3, 0x22, -1, 0);
  SC(NR_mprotect, m + (pages - 1) * 4096, 4096, 0);
  return m + (pages - 1) * 4096 - n;
}
static i64 parse_arg(const char *s, const char **end) {
  if (*s == '$') {
    long i = parse_int(s + 1, end);
    return (i64)strs[i];
  }
  if (*s == '@') {
    const char *e = s;
    while (*e && *e != ' ' && *e != '\n') e++;
    *end = e;
    if (starts(s, "@null")) return 0;
    if (starts(s, "@unmapped")) return (i64)guard + 8;
    if (starts(s, "@kernel")) return (i64)0xffff800000001000UL;
    if (starts(s, "@odd")) return 1;
    if (starts(s, "@nonul")) {
      long n = parse_int(s + 6, 0);
      char *p = before_guard(n);
      for (long i = 0; i < n; i++) p[i] = 'A';
      return (i64)p;
    }
    if (starts(s, "@edge$") || starts(s, "@cross$")) {
      int cross = s[1] == 'c';
      const char *src = strs[parse_int(s + (cross ? 7 : 6), 0)];
      long n = slen_(src) + (cross ? 0 : 1);
      char *p = before_guard(n);
      for (long i = 0; i < n; i++) p[i] = src[i];
      return (i64)p;
    }
    if (starts(s, "@st1$") || starts(s, "@stm$") || starts(s, "@stl$") || starts(s, "@stn$")) {
      // the string straddles a page boundary, both pages readable: 1 byte / half / all but the last character / the
      // whole text (only the terminator beyond) lies before the boundary
      const char *src = strs[parse_int(s + 5, 0)];
      long n = slen_(src);
      long k = s[3] == '1' ? 1 : s[3] == 'm' ? n / 2 : s[3] == 'l' ? n - 1 : n;
      if (k < 1) k = 1;
      if (k > n) k = n;
      char *m = (char *)sc6(NR_mmap, 0, 3 * 4096, 3, 0x22, -1, 0);
      char *p = m + 4096 - k;
      for (long i = 0; i <= n; i++) p[i] = src[i];
      // what a reader that loses its place would pick up instead of the rest of the name
      for (long i = 0; i < 64; i++) m[4096 + n + 1 + i] = "x/../a/b"[i % 8];
      return (i64)p;
    }
    if (starts(s, "@wo$") || starts(s, "@xo$")) {
      // the string in a page the tracee's kernel-side reads accept but that is not mapped readable:
      // PROT_WRITE only / PROT_EXEC only (cross-process reads without FOLL_FORCE refuse such pages)
      const char *src = strs[parse_int(s + 4, 0)];
      long n = slen_(src) + 1;
      long pages = (n + 4095) / 4096;
      char *m = (char *)sc6(NR_mmap, 0, pages * 4096, 3, 0x22, -1, 0);
      for (long i = 0; i < n; i++) m[i] = src[i];
      SC(NR_mprotect, m, pages * 4096, s[1] == 'w' ? 2 : 4);
      return (i64)m;
    }
    if (starts(s, "@howbad")) return (i64)guard;
    if (starts(s, "@howshort")) {
      char *p = before_guard(4);
      p[0] = p[1] = p[2] = p[3] = 0;
      return (i64)p;
    }
    if (starts(s, "@how")) {
      const char *q;
      u64 *h = alloc(24);
      h[0] = parse_int(s + 4, &q);
      h[1] = *q == '/' ? parse_int(q + 1, &q) : 0;
      h[2] = *q == '/' ? parse_int(q + 1, &q) : 0;
      return (i64)h;
    }
    return 0;
  }
  return parse_int(s, end);
}
static const char *next_line(const char *p) {
  while (*p && *p != '\n') p++;
  return *p ? p + 1 : p;
}
static const char *skip_block(const char *p) { // p is after an F/V/T line: return the line after the matching E
  int depth = 1;
  while (*p && depth) {
    if ((*p == 'F' || *p == 'V' || *p == 'T') && (p[1] == '\n' || p[1] == 0)) depth++;
    if (*p == 'E' && (p[1] == '\n' || p[1] == 0)) depth--;
    p = next_line(p);
  }
  return p;
}

static void run(const char *p, int sub, long line);

static int thread_start(void *arg) {
  long *a = arg;
  run((const char *)a[0], 2, a[1]);
  return 0;
}

static long count_lines(const char *from, const char *to) {
  long n = 0;
  for (; from < to; from++)
    if (*from == '\n') n++;
  return n;
}

// line = number of the line p points at (1-based)
static void run(const char *p, int sub, long line) { // sub: 0 main, 1 process sub-script, 2 thread sub-script
  for (; *p; line++) {
    char op = *p;
    const char *a = p + 1;
    while (*a == ' ') a++;
    switch (op) {
    case 'S': {
      const char *e = a;
      while (*e && *e != '\n') e++;
      char *s = alloc(e - a + 1);
      for (long i = 0; i < e - a; i++) s[i] = a[i];
      s[e - a] = 0;
      strs[nstr++] = s;
      break;
    }
    case 'C': SC(NR_chdir, parse_arg(a, &a), 0, 0); break;
    case 'M': {
      char path[32] = "/@@";
      int n = 3;
      out_num(path, &n, parse_int(a, 0));
      path[n] = 0;
      SC(NR_access, path, 0, 0);
      break;
    }
    case 'X': {
      i64 v[7] = {0, 0, 0, 0, 0, 0, 0};
      for (int i = 0; i < 7 && *a && *a != '\n'; i++) {
        v[i] = parse_arg(a, &a);
        while (*a == ' ') a++;
      }
      logret(line, sc6(v[0], v[1], v[2], v[3], v[4], v[5], v[6]));
      break;
    }
    case 'F':
    case 'V': {
      const char *body = next_line(p);
      i64 pid = op == 'F' ? SC(NR_fork, 0, 0, 0) : SC(NR_vfork, 0, 0, 0);
      if (pid == 0) {
        run(body, 1, line + 1);
        SC(NR_exit_group, 0, 0, 0);
      }
      const char *np = skip_block(body);
      line += count_lines(p, np) - 1;
      p = np;
      continue;
    }
    case 'J': {
      u64 ts[2] = {0, 1000000};
      while (threads_done < threads_started) SC(NR_nanosleep, ts, 0, 0);
      break;
    }
    case 'T': {
      const char *body = next_line(p);
      threads_started++;
      char *stack = (char *)sc6(NR_mmap, 0, 1 << 16, 3, 0x22, -1, 0);
      // CLONE_VM|FS|FILES|SIGHAND|THREAD|SYSVSEM
      u64 *top = (u64 *)(stack + (1 << 16));
      long *targ = alloc(16);
      targ[0] = (long)body;
      targ[1] = line + 1;
      *--top = (u64)targ;
      *--top = (u64)thread_start;
      i64 ret;
      __asm__ volatile("syscall\n\t"
                       "test %%rax,%%rax\n\t"
                       "jnz 1f\n\t"
                       "pop %%rax\n\t"
                       "pop %%rdi\n\t"
                       "call *%%rax\n\t"
                       "mov $60,%%eax\n\t"
                       "xor %%edi,%%edi\n\t"
                       "syscall\n\t"
                       "1:"
                       : "=a"(ret)
                       : "a"(NR_clone), "D"(0x50f00L), "S"(top), "d"(0)
                       : "rcx", "r11", "memory", "r10", "r8", "r9");
      const char *np = skip_block(body);
      line += count_lines(p, np) - 1;
      p = np;
      continue;
    }
    case 'E':
      if (sub == 2) {
        __sync_fetch_and_add(&threads_done, 1);
        SC(NR_exit, 0, 0, 0);
      }
      if (sub == 1) SC(NR_exit_group, 0, 0, 0);
      break;
    case 'W': {
      int st;
      while (sc6(NR_wait4, -1, (i64)&st, 0x40000000 /* __WALL */, 0, 0, 0) > 0) {
      }
      break;
    }
    case 'Y': {
      u64 ts[2] = {0, 20000000};
      SC(NR_nanosleep, ts, 0, 0);
      break;
    }
    case 'Q': SC(NR_exit_group, parse_int(a, 0), 0, 0); break;
    case 'D': {
      u64 sel = (u64)parse_int(a, 0);
      __asm__ volatile("mov %0,%%ds\n\tmov %0,%%es" : : "r"((unsigned short)sel));
      break;
    }
    }
    p = next_line(p);
  }
  if (sub == 2) {
    __sync_fetch_and_add(&threads_done, 1);
    SC(NR_exit, 0, 0, 0);
  }
}

void _start_c(void) {
  script = (char *)sc6(NR_mmap, 0, MAXSCRIPT, 3, 0x22, -1, 0);
  arena = (char *)sc6(NR_mmap, 0, 16 << 20, 3, 0x22, -1, 0);
  arena_end = arena + (16 << 20);
  guard = (char *)sc6(NR_mmap, 0, 8192, 0, 0x22, -1, 0);
  for (;;) {
    i64 n = SC(NR_read, 0, script + slen, MAXSCRIPT - 1 - slen);
    if (n <= 0) break;
    slen += n;
  }
  script[slen] = 0;
  run(script, 0, 1);
  SC(NR_exit_group, 0, 0, 0);
}

__asm__(".globl _start\n_start:\n\txor %rbp,%rbp\n\tand $-16,%rsp\n\tcall _start_c\n");
