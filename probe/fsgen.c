// fsgen: creates file-system residue of chosen kinds below each given directory.
//   fsgen KINDS DIR...      KINDS = string of letters:
//     d deep path (depth 40)            L path longer than PATH_MAX (built with relative mkdir/chdir)
//     z directory of mode 000 with content   h hidden names (".x", "..y", "...")   s symlinks (dangling, to a host path, to itself)
//     f FIFO    k unix socket    l hard-link pair    m 2000 entries    o file held open by a process that is still alive at exit
//     r read-only file inside a read-only directory  x file with weird name (spaces, newline, unicode)
#define _GNU_SOURCE
#include <errno.h>
#include <fcntl.h>
#include <signal.h>
#include <stdio.h>
#include <stdlib.h>
#include <string.h>
#include <sys/socket.h>
#include <sys/stat.h>
#include <sys/un.h>
#include <unistd.h>

static void touch(const char *p) {
  int fd = open(p, O_CREAT | O_WRONLY, 0644);
  if (fd >= 0) {
    if (write(fd, "residue", 7) < 0) {
    }
    close(fd);
  }
}

static void gen(char k) {
  switch (k) {
  case 'd': {
    char p[512] = "deep";
    for (int i = 0; i < 40; i++) {
      mkdir(p, 0755);
      strcat(p, "/d");
    }
    mkdir(p, 0755);
    strcat(p, "/leaf");
    touch(p);
    break;
  }
  case 'L': {
    int back = open(".", O_RDONLY);
    char name[201];
    memset(name, 'n', 200);
    name[200] = 0;
    for (int i = 0; i < 30; i++) { // 30 * 201 > PATH_MAX
      if (mkdir(name, 0755) && errno != EEXIST) break;
      if (chdir(name)) break;
    }
    touch("bottom");
    if (fchdir(back)) {
    }
    close(back);
    break;
  }
  case 'z':
    mkdir("locked", 0755);
    touch("locked/inside");
    mkdir("locked/sub", 0755);
    touch("locked/sub/deeper");
    chmod("locked/sub", 0);
    chmod("locked", 0);
    break;
  case 'h':
    touch(".x");
    touch("..y");
    touch("...");
    mkdir(".hiddendir", 0700);
    touch(".hiddendir/.z");
    break;
  case 's':
    if (symlink("nowhere-at-all", "dangling")) {
    }
    if (symlink("/proc/1/root", "to-host")) {
    }
    if (symlink("selfloop", "selfloop")) {
    }
    if (symlink("/etc/passwd", ".hidden-link")) {
    }
    break;
  case 'f': mkfifo("fifo", 0666); break;
  case 'k': {
    int s = socket(AF_UNIX, SOCK_STREAM, 0);
    struct sockaddr_un a = {AF_UNIX, "sock"};
    bind(s, (struct sockaddr *)&a, sizeof a);
    close(s);
    break;
  }
  case 'l':
    touch("hl1");
    if (link("hl1", "hl2")) {
    }
    break;
  case 'm':
    mkdir("many", 0755);
    for (int i = 0; i < 2000; i++) {
      char p[64];
      snprintf(p, sizeof p, "many/e%04d", i);
      touch(p);
    }
    break;
  case 'o': {
    touch("held");
    if (fork() == 0) {
      int fd = open("held", O_RDWR);
      (void)fd;
      signal(SIGTERM, SIG_IGN);
      signal(SIGHUP, SIG_IGN);
      setsid();
      for (;;) pause();
    }
    break;
  }
  case 'r':
    mkdir("rodir", 0755);
    touch("rodir/rofile");
    chmod("rodir/rofile", 0444);
    chmod("rodir", 0555);
    break;
  case 'x':
    touch("with space");
    touch("new\nline");
    touch("\xc3\xa9\xe2\x82\xac-unicode");
    touch("-rf");
    break;
  }
}

int main(int argc, char **argv) {
  if (argc < 3) return 2;
  int made = 0;
  for (int i = 2; i < argc; i++) {
    if (chdir(argv[i])) continue;
    for (const char *k = argv[1]; *k; k++) gen(*k);
    made++;
  }
  return made ? 0 : 3;
}
