// mute: whatever its arguments, says nothing and waits (a container "init" that never answers). Ends when stdin's peer
// or its parent goes away is NOT needed: the builder must kill it.
#include <unistd.h>
int main(void) {
  for (;;) pause();
}
