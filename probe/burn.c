// burn: programs that end in a chosen way or exhaust a chosen resource.
//   burn exit N | raise S | fault segv|fpe|ill|bus|trap|abort | cpu | grow PATH | mem BYTES | write FD TOTAL CHUNK | pause
//   burn child WHEN CHILDACT CHILDARG MAINACT MAINARG   (WHEN = before|while|after; *ACT = exit|raise)
#define _GNU_SOURCE
#include <errno.h>
#include <fcntl.h>
#include <signal.h>
#include <stdio.h>
#include <stdlib.h>
#include <string.h>
#include <sys/mman.h>
#include <sys/syscall.h>
#include <sys/wait.h>
#include <time.h>
#include <unistd.h>

static void do_raise(int s) {
  // default disposition, unblocked, raw kill (glibc refuses 32/33 in its wrappers)
  struct {
    void *h;
    unsigned long fl;
    void *r;
    unsigned long m;
  } ksa = {0, 0, 0, 0};
  syscall(SYS_rt_sigaction, s, &ksa, 0, 8);
  unsigned long mask = 0;
  syscall(SYS_rt_sigprocmask, SIG_SETMASK, &mask, 0, 8);
  syscall(SYS_kill, getpid(), s);
  // not terminated by it
  _exit(99);
}

static void act(const char *a, const char *arg) {
  if (!strcmp(a, "exit")) _exit(atoi(arg));
  if (!strcmp(a, "raise")) do_raise(atoi(arg));
  _exit(98);
}

int main(int argc, char **argv) {
  if (argc < 2) return 97;
  const char *m = argv[1];
  if (!strcmp(m, "exit") || !strcmp(m, "raise")) act(m, argv[2]);
  if (!strcmp(m, "fault")) {
    const char *k = argv[2];
    if (!strcmp(k, "segv")) *(volatile int *)0 = 1;
    if (!strcmp(k, "fpe")) {
      __asm__ volatile("xor %%ecx,%%ecx; mov $1,%%eax; cltd; idiv %%ecx" ::: "eax", "ecx", "edx");
    }
    if (!strcmp(k, "ill")) __asm__ volatile("ud2");
    if (!strcmp(k, "trap")) __asm__ volatile("int3");
    if (!strcmp(k, "abort")) abort();
    if (!strcmp(k, "bus")) {
      char t[] = "/tmp/burn-bus-XXXXXX";
      int fd = mkstemp(t);
      if (fd < 0) fd = open("bus.tmp", O_CREAT | O_RDWR, 0600);
      else unlink(t);
      char *p = mmap(0, 4096, PROT_READ | PROT_WRITE, MAP_SHARED, fd, 0);
      p[0] = 1; // file has length 0 → SIGBUS
    }
    _exit(99);
  }
  if (!strcmp(m, "cpu")) {
    volatile unsigned long x = 0;
    for (;;) x++;
  }
  if (!strcmp(m, "cpufor")) { // burn user CPU for N ms, then end (default exit 0)
    long ms = atol(argv[2]);
    struct timespec t;
    volatile unsigned long x = 0;
    for (;;) {
      for (int i = 0; i < 100000; i++) x++;
      clock_gettime(CLOCK_PROCESS_CPUTIME_ID, &t);
      if (t.tv_sec * 1000 + t.tv_nsec / 1000000 >= ms) {
        if (argc >= 5) act(argv[3], argv[4]); // optional way of ending: exit N | raise SIG
        _exit(0);
      }
    }
  }
  if (!strcmp(m, "grow")) {
    int fd = open(argv[2], O_CREAT | O_WRONLY | O_TRUNC, 0644);
    if (fd < 0) _exit(96);
    static char b[65536];
    for (;;)
      if (write(fd, b, sizeof b) < 0) _exit(errno == EFBIG ? 95 : 94);
  }
  if (!strcmp(m, "mem")) {
    unsigned long n = strtoul(argv[2], 0, 0);
    char *p = mmap(0, n, PROT_READ | PROT_WRITE, MAP_PRIVATE | MAP_ANONYMOUS, -1, 0);
    if (p == MAP_FAILED) _exit(93);
    for (unsigned long i = 0; i < n; i += 4096) p[i] = 1;
    if (argc >= 5) act(argv[3], argv[4]);
    _exit(0);
  }
  if (!strcmp(m, "write")) {
    int fd = atoi(argv[2]);
    unsigned long total = strtoul(argv[3], 0, 0), chunk = strtoul(argv[4], 0, 0);
    char *b = malloc(chunk ? chunk : 1);
    memset(b, 'x', chunk);
    signal(SIGPIPE, SIG_DFL);
    unsigned long done = 0;
    while (done < total) {
      unsigned long c = total - done < chunk ? total - done : chunk;
      long n = write(fd, b, c);
      if (n < 0) _exit(92); // error: the collector broke the writer
      if ((unsigned long)n != c) _exit(91);
      done += n;
    }
    _exit(0);
  }
  if (!strcmp(m, "pause")) {
    for (;;) pause();
  }
  if (!strcmp(m, "cat") && argc >= 3) { // copy a file to descriptor 1; exit 1 if it cannot be opened
    int fd = open(argv[2], O_RDONLY);
    if (fd < 0) _exit(1);
    char b[4096];
    ssize_t n;
    while ((n = read(fd, b, sizeof b)) > 0)
      if (write(1, b, n) < 0) _exit(2);
    _exit(0);
  }
  if (!strcmp(m, "pidwalk") && argc >= 3) {
    // walks the pid counter of this pid namespace (made small through pid_max) with forks that exit at once, until the
    // next process created will get pid P: first lap finds the pid handed out right before P, second lap stops there
    int P = atoi(argv[2]), prev = -1, pred = -1;
    for (int i = 0; i < 4096; i++) {
      pid_t c = fork();
      if (c == 0) _exit(0);
      if (c < 0) _exit(93);
      int st;
      waitpid(c, &st, 0);
      if (c == pred) _exit(0); // the next pid handed out is P
      if (c == P && prev >= 0) pred = prev;
      prev = c;
    }
    _exit(94);
  }
  if (!strcmp(m, "apause") && argc >= 3) {
    // one path system call (the nonce is the name) for handlers that read the path, then as "pause"
    access(argv[2], F_OK);
    for (;;) pause();
  }
  if (!strcmp(m, "aexit") && argc >= 4) {
    access(argv[3], F_OK);
    _exit(atoi(argv[2]));
  }
  if (!strcmp(m, "stopcont") && argc >= 4) {
    // job-control stop of the main process, continued by a child a little later, then the chosen ending
    pid_t me = getpid();
    pid_t c = fork();
    if (c == 0) {
      usleep(100000);
      kill(me, SIGCONT);
      _exit(0);
    }
    syscall(SYS_kill, me, SIGSTOP);
    int st;
    waitpid(c, &st, 0);
    act(argv[2], argv[3]);
  }
  if (!strcmp(m, "child") && argc >= 8) {
    const char *when = argv[2];
    int p[2];
    if (pipe(p)) _exit(90);
    pid_t c = fork();
    if (c == 0) {
      close(p[1]);
      if (!strcmp(when, "before")) act(argv[3], argv[4]);
      if (!strcmp(when, "while")) { // end as soon as the parent is gone (pipe closes)
        char ch;
        read(p[0], &ch, 1);
        act(argv[3], argv[4]);
      }
      // after: outlive the parent a little
      char ch;
      read(p[0], &ch, 1);
      usleep(20000);
      act(argv[3], argv[4]);
    }
    close(p[0]);
    if (!strcmp(when, "before")) {
      int st;
      waitpid(c, &st, 0);
    }
    act(argv[5], argv[6]);
  }
  return 97;
}
