// tree: builds a process tree that tries to survive, then ends in a chosen way.
//   tree NONCE SHAPE THEN [OUTFD]
//   SHAPE: comma separated child kinds of the root, each optionally followed by '+' (the child forks a plain grandchild)
//          and/or a digit 2..3 (depth: the child repeats the same kind below itself):
//            p plain   i ignores every catchable signal   d double-fork daemon (intermediate exits)
//            s setsid  g own process group                 o ignores SIGHUP/SIGTERM and outlives the parent
//            u created with clone(CLONE_UNTRACED) (a tracer does not get it attached)
//          "-" = no children
//   THEN:  pause | exit:N | kill:SIG | wait (block reading stdin; exits 0 at EOF)
//   When the whole tree is up the root writes "READY <number of live descendants>\n" to OUTFD (default: none).
// Every process of the tree keeps the argv of the root (no exec), so a scan for NONCE finds them all.
#define _GNU_SOURCE
#include <errno.h>
#include <sched.h>
#include <sys/syscall.h>
#include <signal.h>
#include <stdio.h>
#include <stdlib.h>
#include <string.h>
#include <sys/prctl.h>
#include <sys/wait.h>
#include <unistd.h>

static int up[2]; // every settled descendant writes one byte here

static void ignore_all(void) {
  for (int s = 1; s < 65; s++)
    if (s != SIGKILL && s != SIGSTOP) signal(s, SIG_IGN);
}

static void settle_forever(void) {
  char c = 1;
  if (write(up[1], &c, 1) < 0) {
  }
  close(up[1]);
  for (;;) pause();
}

static void node(char kind, int depth, int plus) {
  // 'u': the child is created with CLONE_UNTRACED, which a tracer's PTRACE_O_TRACEFORK/CLONE cannot override
  pid_t p = kind == 'u' ? (pid_t)syscall(SYS_clone, CLONE_UNTRACED | SIGCHLD, 0, 0, 0, 0) : fork();
  if (p != 0) return;
  // child
  switch (kind) {
  case 'i': ignore_all(); break;
  case 's': setsid(); break;
  case 'g': setpgid(0, 0); break;
  case 'o':
    signal(SIGHUP, SIG_IGN);
    signal(SIGTERM, SIG_IGN);
    break;
  case 'd': {
    pid_t q = fork();
    if (q != 0) _exit(0); // intermediate exits: the grandchild is re-parented
    setsid();
    break;
  }
  }
  if (plus) {
    pid_t q = fork();
    if (q == 0) settle_forever();
  }
  if (depth > 1) node(kind, depth - 1, 0);
  settle_forever();
}

int main(int argc, char **argv) {
  if (argc < 4) return 97;
  const char *shape = argv[2], *then = argv[3];
  int outfd = argc > 4 ? atoi(argv[4]) : -1;
  if (pipe(up)) return 96;
  int expected = 0;
  for (const char *s = shape; *s && *s != '-';) {
    char kind = *s++;
    int plus = 0, depth = 1;
    while (*s && *s != ',') {
      if (*s == '+') plus = 1;
      if (*s >= '2' && *s <= '3') depth = *s - '0';
      s++;
    }
    if (*s == ',') s++;
    node(kind, depth, plus);
    expected += depth + plus;
  }
  close(up[1]);
  // intermediate 'd' parents are reaped here; settled descendants report through the pipe
  int got = 0;
  char c;
  while (got < expected && read(up[0], &c, 1) == 1) got++;
  while (waitpid(-1, 0, WNOHANG) > 0) {
  }
  if (outfd >= 0) {
    char b[64];
    int n = snprintf(b, sizeof b, "READY %d\n", got);
    if (write(outfd, b, n) < 0) {
    }
  }
  if (!strcmp(then, "pause"))
    for (;;) pause();
  if (!strncmp(then, "exit:", 5)) _exit(atoi(then + 5));
  if (!strncmp(then, "kill:", 5)) {
    signal(atoi(then + 5), SIG_DFL);
    kill(getpid(), atoi(then + 5));
    for (;;) pause();
  }
  if (!strcmp(then, "wait")) {
    while (read(0, &c, 1) > 0) {
    }
    _exit(0);
  }
  return 95;
}
