// report: self-reporting probe run as the sandboxed program.
// usage: report [--out=FD] [--in=FD] [--marker=PATH] [--wait] [--nofds] [--exit=N]
//   first act: create the marker file (if given); then print one JSON line describing the security state of this
//   process on FD (default 1); with --wait, block reading one byte from --in (default 0) before exiting.
#define _GNU_SOURCE
#include <errno.h>
#include <fcntl.h>
#include <grp.h>
#include <linux/capability.h>
#include <stdio.h>
#include <stdlib.h>
#include <string.h>
#include <sys/prctl.h>
#include <sys/resource.h>
#include <sys/stat.h>
#include <sys/syscall.h>
#include <sys/utsname.h>
#include <unistd.h>

static char buf[1 << 16];
static int pos;
#define P(...) pos += snprintf(buf + pos, sizeof(buf) - pos, __VA_ARGS__)

int main(int argc, char **argv) {
  int out = 1, in = 0, wait = 0, nofds = 0, code = 0;
  const char *marker = 0, *outfile = 0;
  for (int i = 1; i < argc; i++) {
    if (!strncmp(argv[i], "--out=", 6)) out = atoi(argv[i] + 6);
    else if (!strncmp(argv[i], "--in=", 5)) in = atoi(argv[i] + 5);
    else if (!strncmp(argv[i], "--marker=", 9)) marker = argv[i] + 9;
    else if (!strncmp(argv[i], "--outfile=", 10)) outfile = argv[i] + 10;
    else if (!strcmp(argv[i], "--wait")) wait = 1;
    else if (!strcmp(argv[i], "--nofds")) nofds = 1;
    else if (!strncmp(argv[i], "--exit=", 7)) code = atoi(argv[i] + 7);
  }
  if (marker) {
    int fd = open(marker, O_CREAT | O_WRONLY, 0644);
    if (fd >= 0) close(fd);
  }
  P("{\"pid\":%d,\"ppid\":%d,\"sid\":%d,\"pgid\":%d", getpid(), getppid(), getsid(0), getpgid(0));
  uid_t r, e, s;
  getresuid(&r, &e, &s);
  P(",\"uid\":[%d,%d,%d]", r, e, s);
  getresgid(&r, &e, &s);
  P(",\"gid\":[%d,%d,%d]", r, e, s);
  gid_t groups[64];
  int ng = getgroups(64, groups);
  P(",\"groups\":[");
  for (int i = 0; i < ng; i++) P("%s%d", i ? "," : "", groups[i]);
  P("]");
  struct __user_cap_header_struct h = {_LINUX_CAPABILITY_VERSION_3, 0};
  struct __user_cap_data_struct d[2];
  memset(d, 0, sizeof d);
  if (syscall(SYS_capget, &h, d) == 0)
    P(",\"cap_eff\":\"%08x%08x\",\"cap_prm\":\"%08x%08x\",\"cap_inh\":\"%08x%08x\"", d[1].effective, d[0].effective, d[1].permitted,
      d[0].permitted, d[1].inheritable, d[0].inheritable);
  else
    P(",\"cap_err\":%d", errno);
  unsigned long long amb = 0, bnd = 0;
  for (int c = 0; c < 64; c++) {
    if (prctl(PR_CAP_AMBIENT, PR_CAP_AMBIENT_IS_SET, c, 0, 0) == 1) amb |= 1ULL << c;
    if (prctl(PR_CAPBSET_READ, c, 0, 0, 0) == 1) bnd |= 1ULL << c;
  }
  P(",\"cap_amb\":\"%016llx\",\"cap_bnd\":\"%016llx\"", amb, bnd);
  P(",\"securebits\":%d", prctl(PR_GET_SECUREBITS, 0, 0, 0, 0));
  P(",\"no_new_privs\":%d", prctl(PR_GET_NO_NEW_PRIVS, 0, 0, 0, 0));
  P(",\"seccomp\":%d", prctl(PR_GET_SECCOMP, 0, 0, 0, 0));
  char cwd[4096];
  if (getcwd(cwd, sizeof cwd)) P(",\"cwd\":\"%s\"", cwd);
  else P(",\"cwd_err\":%d", errno);
  struct utsname u;
  uname(&u);
  P(",\"host\":\"%s\",\"domain\":\"%s\"", u.nodename, u.domainname);
  P(",\"rlimits\":[");
  for (int i = 0; i < 16; i++) {
    struct rlimit rl;
    getrlimit(i, &rl);
    P("%s[%llu,%llu]", i ? "," : "", (unsigned long long)rl.rlim_cur, (unsigned long long)rl.rlim_max);
  }
  P("]");
  if (!nofds) {
    P(",\"fds\":[");
    int first = 1;
    for (int fd = 0; fd < 1024; fd++) {
      struct stat st;
      if (fstat(fd, &st) != 0) continue;
      int fl = fcntl(fd, F_GETFL), fdfl = fcntl(fd, F_GETFD);
      P("%s{\"fd\":%d,\"dev\":%llu,\"ino\":%llu,\"type\":%d,\"fl\":%d,\"cloexec\":%d}", first ? "" : ",", fd, (unsigned long long)st.st_dev,
        (unsigned long long)st.st_ino, (st.st_mode & S_IFMT) >> 12, fl, fdfl & FD_CLOEXEC ? 1 : 0);
      first = 0;
    }
    P("]");
  }
  P(",\"argc\":%d}\n", argc);
  if (outfile) out = open(outfile, O_CREAT | O_WRONLY | O_TRUNC, 0644);
  int off = 0;
  while (off < pos) {
    int n = write(out, buf + off, pos - off);
    if (n <= 0) break;
    off += n;
  }
  if (outfile) close(out);
  if (wait) {
    char c;
    while (read(in, &c, 1) < 0 && errno == EINTR) {
    }
  }
  return code;
}
