// memattack: run from a sealed memfd; tries to modify its own image and a second sealed memfd given as descriptor 3.
// prints one line per attempt on stdout: "<target> <operation> <result>"; exit code 0.
#define _GNU_SOURCE
#include <errno.h>
#include <fcntl.h>
#include <stdio.h>
#include <string.h>
#include <sys/mman.h>
#include <sys/stat.h>
#include <unistd.h>

#ifndef F_ADD_SEALS
#define F_ADD_SEALS 1033
#define F_GET_SEALS 1034
#endif

static void attack(const char *name, int fd) {
  char b[8] = "HACKED!";
  printf("%s write %zd\n", name, write(fd, b, 7));
  printf("%s pwrite %zd\n", name, pwrite(fd, b, 7, 0));
  printf("%s ftruncate0 %d\n", name, ftruncate(fd, 0));
  printf("%s ftruncate-grow %d\n", name, ftruncate(fd, 1 << 24));
  printf("%s fallocate %d\n", name, fallocate(fd, 0, 0, 1 << 20));
  void *m = mmap(0, 4096, PROT_READ | PROT_WRITE, MAP_SHARED, fd, 0);
  printf("%s mmap-shared-write %d\n", name, m == MAP_FAILED ? -1 : 0);
  if (m != MAP_FAILED) memcpy(m, b, 7);
  printf("%s unseal %d\n", name, fcntl(fd, F_ADD_SEALS, 0));
  printf("%s fchmod %d\n", name, fchmod(fd, 0777));
  char p[64];
  snprintf(p, sizeof p, "/proc/self/fd/%d", fd);
  int w = open(p, O_WRONLY);
  printf("%s reopen-wronly %d\n", name, w < 0 ? -1 : 0);
  if (w >= 0) {
    printf("%s reopen-write %zd\n", name, write(w, b, 7));
    printf("%s reopen-ftruncate %d\n", name, ftruncate(w, 0));
    close(w);
  }
  w = open(p, O_RDWR | O_TRUNC);
  printf("%s reopen-trunc %d\n", name, w < 0 ? -1 : 0);
  if (w >= 0) close(w);
}

int main(void) {
  int self = open("/proc/self/exe", O_RDONLY);
  int selfw = open("/proc/self/exe", O_WRONLY);
  printf("exe open-wronly %d\n", selfw < 0 ? -1 : 0);
  if (self >= 0) attack("exe", self);
  attack("fd3", 3);
  fflush(stdout);
  return 0;
}
