// fsprobe: reports what a sandboxed program can see and modify.
//   fsprobe [--wait] CANARY TARGET...     (writes JSON to stdout; with --wait blocks on stdin afterwards)
// For "/" and every TARGET: type, statvfs read-only flag, and the errno of: create a file, mkdir, unlink / rename / chmod /
// open-for-write of the pre-existing entry "known" (directories) or of the target itself (files).
// CANARY is the absolute host path of a file that must not be reachable by any of the escape routes tried.
#define _GNU_SOURCE
#include <dirent.h>
#include <errno.h>
#include <fcntl.h>
#include <stdio.h>
#include <stdlib.h>
#include <string.h>
#include <sys/stat.h>
#include <sys/statvfs.h>
#include <unistd.h>

static char out[1 << 18];
static int pos;
#define P(...) pos += snprintf(out + pos, sizeof(out) - pos, __VA_ARGS__)

static int e(int r) { return r < 0 ? errno : 0; }

static void listing(const char *dir) {
  P("[");
  DIR *d = opendir(dir);
  int first = 1;
  if (d) {
    struct dirent *de;
    while ((de = readdir(d))) {
      if (!strcmp(de->d_name, ".") || !strcmp(de->d_name, "..")) continue;
      P("%s\"%s\"", first ? "" : ",", de->d_name);
      first = 0;
    }
    closedir(d);
  } else
    P("\"<errno %d>\"", errno);
  P("]");
}

static void probe_dir(const char *t) {
  char a[4096], b[4096];
  struct statvfs sv;
  int ro = statvfs(t, &sv) == 0 ? !!(sv.f_flag & ST_RDONLY) : -1;
  P("\"ro\":%d,\"nosuid\":%d,\"noexec\":%d,\"nodev\":%d", ro, ro < 0 ? -1 : !!(sv.f_flag & ST_NOSUID), ro < 0 ? -1 : !!(sv.f_flag & ST_NOEXEC), ro < 0 ? -1 : !!(sv.f_flag & ST_NODEV));
  snprintf(a, sizeof a, "%s/.wtest", t);
  int fd = open(a, O_CREAT | O_WRONLY | O_EXCL, 0644);
  P(",\"create\":%d", e(fd));
  if (fd >= 0) {
    close(fd);
    unlink(a);
  }
  snprintf(a, sizeof a, "%s/.wdir", t);
  int r = mkdir(a, 0755);
  P(",\"mkdir\":%d", e(r));
  if (r == 0) rmdir(a);
  snprintf(a, sizeof a, "%s/known", t);
  fd = open(a, O_WRONLY);
  P(",\"open_w\":%d", e(fd));
  if (fd >= 0) close(fd);
  fd = open(a, O_WRONLY | O_TRUNC);
  P(",\"open_trunc\":%d", e(fd));
  if (fd >= 0) {
    if (write(fd, "known", 5) < 0) {
    }
    close(fd);
  }
  P(",\"chmod\":%d", e(chmod(a, 0600)));
  snprintf(b, sizeof b, "%s/known2", t);
  r = rename(a, b);
  P(",\"rename\":%d", e(r));
  if (r == 0) {
    if (rename(b, a)) {
    }
  }
  snprintf(b, sizeof b, "%s/victim", t);
  P(",\"unlink\":%d", e(unlink(b)));
  P(",\"list\":");
  listing(t);
}

static void probe_file(const char *t) {
  struct statvfs sv;
  int ro = statvfs(t, &sv) == 0 ? !!(sv.f_flag & ST_RDONLY) : -1;
  P("\"ro\":%d", ro);
  int fd = open(t, O_WRONLY);
  P(",\"open_w\":%d", e(fd));
  if (fd >= 0) close(fd);
  fd = open(t, O_WRONLY | O_APPEND);
  if (fd >= 0) {
    P(",\"append\":%d", e((int)write(fd, "+", 1)));
    close(fd);
  } else
    P(",\"append\":%d", errno);
  P(",\"chmod\":%d", e(chmod(t, 0600)));
  // once more after the chmod: the owner of a file needs no privilege to make it writable
  fd = open(t, O_WRONLY | O_APPEND);
  if (fd >= 0) {
    P(",\"append2\":%d", e((int)write(fd, "+", 1)));
    close(fd);
  } else
    P(",\"append2\":%d", errno);
  char buf[64];
  fd = open(t, O_RDONLY);
  int n = fd >= 0 ? (int)read(fd, buf, sizeof buf) : -1;
  P(",\"read_len\":%d", n);
  if (fd >= 0) close(fd);
  P(",\"unlink\":%d", e(unlink(t)));
}

static int reachable(const char *p) {
  int fd = open(p, O_RDONLY);
  if (fd >= 0) {
    close(fd);
    return 1;
  }
  struct stat st;
  return lstat(p, &st) == 0;
}

int main(int argc, char **argv) {
  int wait = 0, i = 1;
  if (argc > 1 && !strcmp(argv[1], "--wait")) wait = 1, i = 2;
  if (argc <= i) return 2;
  const char *canary = argv[i++];
  P("{\"root\":{");
  probe_dir("/");
  struct stat s1, s2;
  stat("/", &s1);
  stat("/..", &s2);
  P("},\"dotdot_is_root\":%d", s1.st_ino == s2.st_ino && s1.st_dev == s2.st_dev);
  P(",\"old_root\":%d", reachable("/old_root"));
  char cwd[4096];
  P(",\"cwd\":\"%s\"", getcwd(cwd, sizeof cwd) ? cwd : "?");
  P(",\"targets\":{");
  for (int k = i; k < argc; k++) {
    struct stat st;
    P("%s\"%s\":{", k > i ? "," : "", argv[k]);
    if (lstat(argv[k], &st) != 0) {
      P("\"missing\":%d", errno);
    } else if (S_ISDIR(st.st_mode)) {
      P("\"type\":\"dir\",");
      probe_dir(argv[k]);
    } else if (S_ISLNK(st.st_mode)) {
      char l[256];
      int n = readlink(argv[k], l, sizeof l - 1);
      l[n < 0 ? 0 : n] = 0;
      P("\"type\":\"symlink\",\"to\":\"%s\"", l);
    } else {
      P("\"type\":\"file\",");
      probe_file(argv[k]);
    }
    P("}");
  }
  P("},\"escapes\":{");
  const char *routes[] = {"%s", "/proc/1/root%s", "/proc/self/root/../../..%s", "/old_root%s", "/proc/1/cwd/../../../../../../..%s", "/../../..%s", "/proc/self/cwd/../../../../../..%s"};
  for (unsigned r = 0; r < sizeof routes / sizeof *routes; r++) {
    char p[8192];
    snprintf(p, sizeof p, routes[r], canary);
    P("%s\"%s\":%d", r ? "," : "", routes[r], reachable(p));
  }
  P("}}\n");
  int off = 0;
  while (off < pos) {
    int n = write(1, out + off, pos - off);
    if (n <= 0) break;
    off += n;
  }
  if (wait) {
    char c;
    if (read(0, &c, 1) < 0) {
    }
  }
  return 0;
}
