// threads: a process with N extra threads (default 3) that all sleep for ever; prints "ready" once they exist.
#include <pthread.h>
#include <stdio.h>
#include <stdlib.h>
#include <unistd.h>
static void *idle(void *a) {
  (void)a;
  for (;;) pause();
  return 0;
}
int main(int argc, char **argv) {
  int n = argc > 1 ? atoi(argv[1]) : 3;
  for (int i = 0; i < n; i++) {
    pthread_t t;
    if (pthread_create(&t, 0, idle, 0)) return 2;
  }
  if (write(1, "ready\n", 6) < 0) return 3;
  for (;;) pause();
}
