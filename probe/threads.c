// threads: a process with N extra threads (default 3) that all sleep for ever; prints "ready" once they exist.
#include <pthread.h>
#include <stdio.h>
#include <stdlib.h>
#include <unistd.h>
static void *idle(void *a) {
  (void)a;
  for (;;) pause();
  return 0;
}
int main(int argc, char **argv) {
  if (argc > 2 && argv[1][0] == 'f') {
    // "f N": wait for one byte on descriptor 0, then fork N children that sleep for ever (they start in this process's
    // groups), then print "ready"
    char c;
    if (read(0, &c, 1) != 1) return 4;
    int n = atoi(argv[2]);
    for (int i = 0; i < n; i++) {
      pid_t p = fork();
      if (p < 0) return 5;
      if (p == 0)
        for (;;) pause();
    }
    if (write(1, "ready\n", 6) < 0) return 3;
    for (;;) pause();
  }
  int n = argc > 1 ? atoi(argv[1]) : 3;
  for (int i = 0; i < n; i++) {
    pthread_t t;
    if (pthread_create(&t, 0, idle, 0)) return 2;
  }
  if (write(1, "ready\n", 6) < 0) return 3;
  for (;;) pause();
}
