// Package gate controls the verif-tagged named points of the container package: host-side points arrive through
// container.VerifHook (in-process), container-init points arrive as "VP <seq> <id> <arg>" lines on the init's stderr
// socket and are parked until acknowledged. Every point is logged; rules decide which points are held.
package gate

import (
	"bufio"
	"fmt"
	"os"
	"strings"
	"sync"
	"syscall"
	"time"
)

// Event is one named point reached by one side.
type Event struct {
	Side string // "H" host, "C" container init, "X" harness-owned
	ID   int
	Arg  int
	Name string // for harness-owned events
}

func (e Event) String() string {
	if e.Side == "X" {
		return "X:" + e.Name
	}
	return fmt.Sprintf("%s:%d:%d", e.Side, e.ID, e.Arg)
}

type rule struct {
	side    string
	id, arg int // arg -1 = any
	parked  []func()
	active  bool
}

// Ctl is one controller (one container under control per process at a time for the host side).
type Ctl struct {
	mu    sync.Mutex
	cond  *sync.Cond
	log   []Event
	rules []*rule
	text  []string // non-VP lines written by the init (its diagnostics)
	ours  *os.File
	Peer  *os.File // pass as Builder.Stderr
	dead  bool
}

// New creates a controller with a socketpair for the container init's stderr.
func New() (*Ctl, error) {
	p, err := syscall.Socketpair(syscall.AF_UNIX, syscall.SOCK_STREAM|syscall.SOCK_CLOEXEC, 0)
	if err != nil {
		return nil, err
	}
	c := &Ctl{ours: os.NewFile(uintptr(p[0]), "gate"), Peer: os.NewFile(uintptr(p[1]), "gate-peer")}
	c.cond = sync.NewCond(&c.mu)
	go c.reader()
	return c, nil
}

// Close releases everything and closes the sockets.
func (c *Ctl) Close() {
	c.mu.Lock()
	c.dead = true
	for _, r := range c.rules {
		r.active = false
		for _, f := range r.parked {
			f()
		}
		r.parked = nil
	}
	c.mu.Unlock()
	c.ours.Close()
	if c.Peer != nil {
		c.Peer.Close()
	}
	c.cond.Broadcast()
}

func (c *Ctl) reader() {
	rd := bufio.NewReader(c.ours)
	for {
		line, err := rd.ReadString('\n')
		if line != "" {
			var seq, id, arg int
			if n, _ := fmt.Sscanf(line, "VP %d %d %d", &seq, &id, &arg); n == 3 {
				s := seq
				c.point(Event{Side: "C", ID: id, Arg: arg}, func() { fmt.Fprintf(c.ours, "%d\n", s) })
			} else {
				c.mu.Lock()
				c.text = append(c.text, strings.TrimSpace(line))
				c.mu.Unlock()
				c.cond.Broadcast()
			}
		}
		if err != nil {
			c.mu.Lock()
			c.dead = true
			c.mu.Unlock()
			c.cond.Broadcast()
			return
		}
	}
}

// point logs the event and either releases it at once or parks it on the first matching active rule.
func (c *Ctl) point(e Event, release func()) {
	c.mu.Lock()
	c.log = append(c.log, e)
	for _, r := range c.rules {
		if r.active && r.side == e.Side && r.id == e.ID && (r.arg < 0 || r.arg == e.Arg) {
			r.parked = append(r.parked, release)
			c.mu.Unlock()
			c.cond.Broadcast()
			return
		}
	}
	c.mu.Unlock()
	c.cond.Broadcast()
	release()
}

// ReleaseOnEOF asks the container init to let every parked point go once this end of the socket is gone (i.e. once the
// process that holds the controller has died): "the init is held at a point" then lasts exactly as long as the controller.
func (c *Ctl) ReleaseOnEOF() { fmt.Fprintf(c.ours, "EOF-RELEASES\n") }

// HostHook is the function to install as container.VerifHook.
func (c *Ctl) HostHook(id, arg int) {
	ch := make(chan struct{})
	c.point(Event{Side: "H", ID: id, Arg: arg}, func() { close(ch) })
	<-ch
}

// Mark logs a harness-owned event.
func (c *Ctl) Mark(name string) {
	c.mu.Lock()
	c.log = append(c.log, Event{Side: "X", Name: name})
	c.mu.Unlock()
	c.cond.Broadcast()
}

// Hold installs a rule: the next points of that kind are parked until Release.
type Hold struct {
	c *Ctl
	r *rule
}

func (c *Ctl) Hold(side string, id, arg int) *Hold {
	r := &rule{side: side, id: id, arg: arg, active: true}
	c.mu.Lock()
	c.rules = append(c.rules, r)
	c.mu.Unlock()
	return &Hold{c, r}
}

// WaitParked waits until at least one point is parked on the rule.
func (h *Hold) WaitParked(d time.Duration) bool {
	return h.c.waitFor(d, func() bool { return len(h.r.parked) > 0 })
}

// Release removes the rule and lets every parked point continue.
func (h *Hold) Release() {
	h.c.mu.Lock()
	h.r.active = false
	p := h.r.parked
	h.r.parked = nil
	h.c.mu.Unlock()
	for _, f := range p {
		f()
	}
}

func (c *Ctl) waitFor(d time.Duration, cond func() bool) bool {
	deadline := time.Now().Add(d)
	t := time.AfterFunc(d, func() { c.cond.Broadcast() })
	defer t.Stop()
	c.mu.Lock()
	defer c.mu.Unlock()
	for !cond() {
		if time.Now().After(deadline) || c.dead {
			return cond()
		}
		c.cond.Wait()
	}
	return true
}

// WaitEvent waits until an event of that kind appears at or after log index from; it returns the index after it.
func (c *Ctl) WaitEvent(from int, side string, id, arg int, d time.Duration) (int, bool) {
	idx := -1
	ok := c.waitFor(d, func() bool {
		for i := from; i < len(c.log); i++ {
			e := c.log[i]
			if e.Side == side && e.ID == id && (arg < 0 || e.Arg == arg) {
				idx = i + 1
				return true
			}
		}
		return false
	})
	return idx, ok
}

// Len returns the current length of the event log.
func (c *Ctl) Len() int { c.mu.Lock(); defer c.mu.Unlock(); return len(c.log) }

// Log returns a copy of the event log from index from.
func (c *Ctl) Log(from int) []Event {
	c.mu.Lock()
	defer c.mu.Unlock()
	return append([]Event{}, c.log[from:]...)
}

// Text returns the diagnostic lines the init wrote to its stderr.
func (c *Ctl) Text() []string { c.mu.Lock(); defer c.mu.Unlock(); return append([]string{}, c.text...) }
