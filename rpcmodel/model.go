// Package rpcmodel is an explicit-state model of the host/container RPC of criyle/go-sandbox, written from the protocol
// description in container/doc.go and from property C10 (not transcribed from the code): one host caller, the two host
// pump goroutines, the two container pump goroutines, the container server, its wait goroutine, the child process and
// the caller's context. Every named point of the implementation (verif hooks) is a labelled transition, everything
// else is internal (tau). The same transition function serves the exhaustive search (all reachable states, invariants)
// and the trace acceptor that judges event logs of the real implementation.
package rpcmodel

import (
	"fmt"
	"sort"
)

// command kinds (host → container) and reply kinds (container → host); numeric values are those of the hook arguments
const (
	CPing = 1 + iota
	COpen
	CDelete
	CReset
	CExecve
	COk
	CKill
	CConf
	CSymlink
)
const (
	RAck    = 0
	RErr    = 1
	RResult = 2
	RBatch  = 3
	RPid    = 16 // ack + credentials
)

// Op is one scripted host operation.
type Op struct {
	Kind      int  // CPing … CSymlink
	ReplyErr  bool // simple command answered with an error reply
	Batch     bool // open/symlink answered with a batch reply
	SyncAfter bool // execve: synchronise after exec
	// execve outcome class
	LookFail  bool // rejected before fork
	StartFail bool // child fails before its sync point (sync-after: start fails)
	SyncFail  bool // host callback fails
	ExecFail  bool // exec fails after the sync was acknowledged
	Cancel    bool // the caller's context may be cancelled
	SelfExit  bool // the child may end by itself
}

func (o Op) String() string {
	if o.Kind != CExecve {
		n := map[int]string{CPing: "ping", COpen: "open", CDelete: "delete", CReset: "reset", CSymlink: "symlink", CConf: "conf"}[o.Kind]
		if o.ReplyErr {
			n += "(err)"
		}
		return n
	}
	s := "execve"
	if o.SyncAfter {
		s += "[sync-after]"
	}
	switch {
	case o.LookFail:
		s += "(rejected-before-fork)"
	case o.StartFail:
		s += "(fails-before-sync)"
	case o.SyncFail:
		s += "(callback-fails)"
	case o.ExecFail:
		s += "(exec-fails-after-sync)"
	default:
		s += "(runs"
		if o.SelfExit {
			s += ",may-exit"
		}
		if o.Cancel {
			s += ",may-cancel"
		}
		s += ")"
	}
	return s
}

type msg struct{ K, Tag int8 }

type fifo struct {
	N int8
	M [4]msg
}

func (f *fifo) push(m msg) { f.M[f.N] = m; f.N++ }
func (f *fifo) pop() msg {
	m := f.M[0]
	copy(f.M[:], f.M[1:])
	f.N--
	f.M[f.N] = msg{}
	return m
}

// State of the whole system.
type State struct {
	Call, HPC          int8 // host caller: current call, program counter
	Cancelled          bool
	HS, HR, CR, CS     int8 // pump program counters
	HSm, HRm, CRm, CSm msg
	CSdone             bool
	HsendCh, HrecvCh   fifo // capacity 1
	CsendCh, CrecvCh   fifo // capacity 1
	SockHC, SockCH     fifo
	CPC                int8
	CTag               int8
	Child              int8 // 0 none, 1 running, 2 ended (not yet collected), 3 collected
	WaitReg, WaitRes   bool
	Bad                int8 // invariant violated (0 none)
	Ret                [6]int8
}

// violation codes
const (
	BadNone            = iota
	BadReplyTag        // I1: a reply was consumed by a call it does not belong to
	BadCmdInWrongState // I2: ok/kill dispatched in idle state, or a top-level command taken inside an execve
	BadNotIdleAtEnd    // I4
)

// Transition is one step: Label "" is internal.
type Transition struct {
	Label string
	Next  State
}

// Model is a script plus the transition function.
type Model struct{ Script []Op }

func (m *Model) Init() State { return State{} }

func (m *Model) op(s *State) Op {
	if int(s.Call) < len(m.Script) {
		return m.Script[s.Call]
	}
	return Op{}
}

// Final reports whether all calls have returned.
func (m *Model) Final(s *State) bool { return int(s.Call) >= len(m.Script) }

// Quiescent: both sides idle and all queues empty (I4).
func (s *State) Quiescent() bool {
	return s.CPC == 0 && s.HS == 0 && s.HR == 0 && s.CR == 0 && s.CS == 0 && s.HsendCh.N == 0 && s.HrecvCh.N == 0 && s.CsendCh.N == 0 &&
		s.CrecvCh.N == 0 && s.SockHC.N == 0 && s.SockCH.N == 0
}

func lbl(name string, arg int8) string { return fmt.Sprintf("%s(%d)", name, arg) }

// Steps returns every enabled transition of s.
func (m *Model) Steps(s State) []Transition {
	var out []Transition
	if s.Bad != 0 {
		return nil
	}
	add := func(label string, f func(n *State)) {
		n := s
		f(&n)
		out = append(out, Transition{label, n})
	}
	op := m.op(&s)
	final := m.Final(&s)

	// ---- host caller
	if !final {
		put := func(k int8, next int8) {
			if s.HsendCh.N == 0 {
				add("", func(n *State) { n.HsendCh.push(msg{k, s.Call}); n.HPC = next })
			}
		}
		ret := func(n *State, class int8) {
			n.Ret[n.Call] = class
			n.HPC = 99
		}
		take := func(f func(n *State, r msg)) {
			if s.HrecvCh.N > 0 {
				add("", func(n *State) {
					r := n.HrecvCh.pop()
					if r.Tag != n.Call {
						n.Bad = BadReplyTag
					}
					f(n, r)
				})
			}
		}
		switch s.HPC {
		case 0:
			put(int8(op.Kind), 1)
		case 1:
			take(func(n *State, r msg) {
				if op.Kind != CExecve {
					ret(n, r.K)
					return
				}
				if r.K == RPid {
					n.HPC = 2
				} else {
					ret(n, RErr)
				}
			})
		case 2: // the caller's callback
			if op.SyncFail {
				add("SYNCFUNC(1)", func(n *State) { n.HPC = 3 })
			} else {
				add("SYNCFUNC(0)", func(n *State) { n.HPC = 5 })
			}
		case 3:
			put(CKill, 4)
		case 4:
			take(func(n *State, r msg) { ret(n, RErr) })
		case 5:
			put(COk, 6)
		case 6:
			add("H_SELECT(0)", func(n *State) { n.HPC = 7 })
		case 7:
			if s.HrecvCh.N > 0 {
				add("H_BR_RESULT(0)", func(n *State) {
					r := n.HrecvCh.pop()
					if r.Tag != n.Call {
						n.Bad = BadReplyTag
					}
					n.Ret[n.Call] = r.K
					n.HPC = 8
				})
			}
			if s.Cancelled {
				add("H_BR_CTX(0)", func(n *State) { n.HPC = 9 })
			}
		case 8:
			if s.HsendCh.N == 0 {
				add("", func(n *State) { n.HsendCh.push(msg{CKill, s.Call}); n.HPC = 99 })
			}
		case 9:
			put(CKill, 10)
		case 10:
			take(func(n *State, r msg) { ret(n, r.K) })
		case 99:
			add(lbl("RETURN", s.Ret[s.Call]), func(n *State) { n.Call++; n.HPC = 0; n.Cancelled = false })
		}
		// the caller's context
		if op.Kind == CExecve && op.Cancel && !s.Cancelled && s.HPC >= 5 && s.HPC < 99 {
			add("CANCEL", func(n *State) { n.Cancelled = true })
		}
	}

	// ---- host send pump
	switch s.HS {
	case 0:
		if s.HsendCh.N > 0 {
			add(lbl("H_SEND_PRE", s.HsendCh.M[0].K), func(n *State) { n.HSm = n.HsendCh.pop(); n.HS = 1 })
		}
	case 1:
		add("", func(n *State) { n.SockHC.push(n.HSm); n.HS = 2 })
	case 2:
		add(lbl("H_SEND_POST", s.HSm.K), func(n *State) { n.HSm = msg{}; n.HS = 0 })
	}
	// ---- host receive pump
	switch s.HR {
	case 0:
		if s.SockCH.N > 0 {
			// the host socket has SO_PASSCRED: every message carries credentials there, so the kind is reported without that bit
			add(lbl("H_RECV", s.SockCH.M[0].K&15), func(n *State) { n.HRm = n.SockCH.pop(); n.HR = 1 })
		}
	case 1:
		if s.HrecvCh.N == 0 {
			add("", func(n *State) { n.HrecvCh.push(n.HRm); n.HRm = msg{}; n.HR = 0 })
		}
	}
	// ---- container receive pump
	switch s.CR {
	case 0:
		if s.SockHC.N > 0 {
			add(lbl("C_RECV", s.SockHC.M[0].K), func(n *State) { n.CRm = n.SockHC.pop(); n.CR = 1 })
		}
	case 1:
		if s.CrecvCh.N == 0 {
			add("", func(n *State) { n.CrecvCh.push(n.CRm); n.CRm = msg{}; n.CR = 0 })
		}
	}
	// ---- container send pump
	switch s.CS {
	case 0:
		if s.CsendCh.N > 0 {
			add(lbl("C_SEND_PRE", s.CsendCh.M[0].K), func(n *State) { n.CSm = n.CsendCh.pop(); n.CS = 1 })
		}
	case 1:
		add("", func(n *State) { n.SockCH.push(n.CSm); n.CS = 2 })
	case 2:
		add(lbl("C_SEND_POST", s.CSm.K), func(n *State) { n.CSm = msg{}; n.CS = 0; n.CSdone = true })
	}

	// ---- container server
	reply := func(k int8, next int8) { // put the reply; the server then waits until it is on the wire
		if s.CsendCh.N == 0 {
			add("", func(n *State) { n.CsendCh.push(msg{k, n.CTag}); n.CSdone = false; n.CPC = next })
		}
	}
	sent := func(next int8) {
		if s.CSdone {
			add("", func(n *State) { n.CSdone = false; n.CPC = next })
		}
	}
	takeCmd := func(f func(n *State, c msg)) {
		if s.CrecvCh.N > 0 {
			add("", func(n *State) { f(n, n.CrecvCh.pop()) })
		}
	}
	// the operation the container is serving is the one whose tag it holds
	cop := Op{}
	if int(s.CTag) < len(m.Script) {
		cop = m.Script[s.CTag]
	}
	switch s.CPC {
	case 0: // idle: next top-level command
		if s.CrecvCh.N > 0 {
			c := s.CrecvCh.M[0]
			add(lbl("C_DISPATCH", c.K), func(n *State) {
				n.CrecvCh.pop()
				n.CTag = c.Tag
				o := Op{}
				if int(c.Tag) < len(m.Script) {
					o = m.Script[c.Tag]
				}
				switch {
				case c.K == COk || c.K == CKill:
					n.Bad = BadCmdInWrongState
				case c.K != CExecve:
					n.CPC = 10
				case o.LookFail:
					n.CPC = 12
				case o.SyncAfter:
					n.CPC = 50
				case o.StartFail:
					n.CPC = 14
				default:
					n.CPC = 20
				}
			})
		}
	case 10: // simple command
		k := int8(RAck)
		if cop.ReplyErr {
			k = RErr
		} else if cop.Batch {
			k = RBatch
		}
		reply(k, 11)
	case 11:
		sent(0)
	case 12: // rejected before fork
		reply(RErr, 11)
	case 14: // child fails before its sync point
		add("C_STARTED(1)", func(n *State) { n.CPC = 12 })
	case 20: // child is at its sync point: report its pid
		reply(RPid, 21)
	case 21:
		sent(22)
	case 22:
		takeCmd(func(n *State, c msg) {
			switch c.K {
			case CKill:
				n.CPC = 14 // child killed and reaped, start reports the failure
			case COk:
				if cop.ExecFail {
					n.CPC = 24
				} else {
					n.Child = 1
					n.CPC = 29
				}
			default:
				n.Bad = BadCmdInWrongState
			}
		})
	case 24: // exec failed after the go-ahead: error reply, and the host's kill still has to be consumed
		add("C_STARTED(1)", func(n *State) { n.CPC = 25 })
	case 25:
		reply(RErr, 26)
	case 26:
		sent(27)
	case 27:
		takeCmd(func(n *State, c msg) {
			if c.K != CKill {
				n.Bad = BadCmdInWrongState
			}
			n.CPC = 0
		})
	case 29:
		add("C_STARTED(0)", func(n *State) { n.CPC = 30 })
	case 30:
		add("", func(n *State) { n.WaitReg = true; n.CPC = 31 })
	case 31:
		add("C_SELECT(0)", func(n *State) { n.CPC = 32 })
	case 32:
		if s.CrecvCh.N > 0 {
			add("C_BR_KILL(0)", func(n *State) {
				c := n.CrecvCh.pop()
				if c.K != CKill {
					n.Bad = BadCmdInWrongState
				}
				if n.Child == 1 {
					n.Child = 2
				}
				n.CPC = 33
			})
		}
		if s.WaitRes {
			add("C_BR_EXIT(0)", func(n *State) { n.WaitRes = false; n.CPC = 40 })
		}
	case 33:
		if s.WaitRes {
			add("", func(n *State) { n.WaitRes = false; n.CPC = 34 })
		}
	case 34:
		reply(RResult, 11)
	case 40:
		reply(RResult, 41)
	case 41:
		sent(42)
	case 42:
		takeCmd(func(n *State, c msg) {
			if c.K != CKill {
				n.Bad = BadCmdInWrongState
			}
			n.CPC = 0
		})
	case 50: // sync after exec: start first
		if cop.StartFail {
			add("C_STARTED(1)", func(n *State) { n.CPC = 12 })
		} else {
			add("C_STARTED(0)", func(n *State) { n.Child = 1; n.CPC = 51 })
		}
	case 51:
		reply(RPid, 52)
	case 52:
		sent(53)
	case 53:
		takeCmd(func(n *State, c msg) {
			switch c.K {
			case CKill:
				if n.Child == 1 {
					n.Child = 2
				}
				n.WaitReg = true
				n.CPC = 33
			case COk:
				n.CPC = 30
			default:
				n.Bad = BadCmdInWrongState
			}
		})
	}
	// ---- wait goroutine
	if s.WaitReg && s.Child == 2 {
		add("C_WAITED(0)", func(n *State) { n.WaitReg = false; n.WaitRes = true; n.Child = 3 })
	}
	// ---- child process ends by itself
	if s.Child == 1 && cop.SelfExit {
		add("", func(n *State) { n.Child = 2 }) // not observable by the harness
	}
	return out
}

// Stats of an exhaustive search.
type Stats struct {
	States, Transitions int
	Deadlocks           []State
	Violations          map[int8]int
	FinalStates         int
	Returns             map[string]bool // distinct vectors of API return classes
	Schedules           map[string]bool // distinct projections on controllable decisions
}

// Explore visits every reachable state of the script (breadth first) and checks I1–I5.
func (m *Model) Explore() Stats {
	st := Stats{Violations: map[int8]int{}, Returns: map[string]bool{}, Schedules: map[string]bool{}}
	seen := map[State]bool{}
	init := m.Init()
	seen[init] = true
	frontier := []State{init}
	for len(frontier) > 0 {
		s := frontier[0]
		frontier = frontier[1:]
		st.States++
		if s.Bad != 0 {
			st.Violations[s.Bad]++
			continue
		}
		ts := m.Steps(s)
		if m.Final(&s) {
			// pumps may still be finishing; a final state with no successors must be quiescent
			if len(ts) == 0 {
				st.FinalStates++
				st.Returns[fmt.Sprint(s.Ret[:len(m.Script)])] = true
				if !s.Quiescent() {
					st.Violations[BadNotIdleAtEnd]++
				}
			}
		} else if len(ts) == 0 {
			st.Deadlocks = append(st.Deadlocks, s)
		}
		for _, t := range ts {
			st.Transitions++
			if !seen[t.Next] {
				seen[t.Next] = true
				frontier = append(frontier, t.Next)
			}
		}
	}
	return st
}

// Acceptor does subset simulation of the model over an observed event sequence.
type Acceptor struct {
	m   *Model
	cur map[State]bool
}

func (m *Model) NewAcceptor() *Acceptor {
	a := &Acceptor{m: m, cur: map[State]bool{m.Init(): true}}
	a.closure()
	return a
}

func (a *Acceptor) closure() {
	work := make([]State, 0, len(a.cur))
	for s := range a.cur {
		work = append(work, s)
	}
	for len(work) > 0 {
		s := work[len(work)-1]
		work = work[:len(work)-1]
		for _, t := range a.m.Steps(s) {
			if t.Label == "" && !a.cur[t.Next] {
				a.cur[t.Next] = true
				work = append(work, t.Next)
			}
		}
	}
}

// Feed advances over one observed event; false = no model behaviour produces this event here.
func (a *Acceptor) Feed(label string) bool {
	next := map[State]bool{}
	for s := range a.cur {
		for _, t := range a.m.Steps(s) {
			if t.Label == label {
				next[t.Next] = true
			}
		}
	}
	if len(next) == 0 {
		return false
	}
	a.cur = next
	a.closure()
	return true
}

// Enabled lists the labels the model could produce next (for diagnostics).
func (a *Acceptor) Enabled() []string {
	set := map[string]bool{}
	for s := range a.cur {
		for _, t := range a.m.Steps(s) {
			if t.Label != "" {
				set[t.Label] = true
			}
		}
	}
	var out []string
	for l := range set {
		out = append(out, l)
	}
	sort.Strings(out)
	return out
}

// CanFinish reports whether some state consistent with the observations is final and quiescent.
func (a *Acceptor) CanFinish() bool {
	for s := range a.cur {
		if a.m.Final(&s) && s.Quiescent() && s.Bad == 0 {
			return true
		}
	}
	return false
}

// Size is the number of model states consistent with the observations so far.
func (a *Acceptor) Size() int { return len(a.cur) }
