#!/bin/bash
# Builds probes (static C) and the vcheck binary from /repo's current working tree.
set -eu
cd "$(dirname "$0")"
export GOFLAGS=-mod=mod GOPROXY=off
unset GOTOOLCHAIN GOSUMDB 2>/dev/null || true
mkdir -p bin evidence replays
cp -f /repo/go.sum go.sum
for src in probe/*.c; do
  [ -e "$src" ] || continue
  out="bin/$(basename "${src%.c}")"
  if [ ! -x "$out" ] || [ "$src" -nt "$out" ]; then
    flags="-static -O1 -Wall"
    case "$src" in */sysrun.c) flags="-static -nostdlib -ffreestanding -fno-builtin -fno-stack-protector -O1 -Wall" ;; */threads.c) flags="-static -O1 -Wall -pthread" ;; esac
    gcc $flags -o "$out.tmp.$$" "$src" && mv -f "$out.tmp.$$" "$out"
  fi
done
# pkg/cgroup is instrumented through an overlay generated from the current files (the repository is not touched)
mkdir -p "bin/overlay.$$"
# VERIF_ALT_ROOT (tools/trymut.sh only): a scratch tree with a candidate change, mapped over /repo for this build
go run ./tools/overlay /repo "bin/overlay.$$" "${VERIF_ALT_ROOT:-}" >/dev/null
go build -overlay "bin/overlay.$$/overlay.json" -tags verif -o "bin/vcheck.tmp.$$" ./cmd/vcheck && mv -f "bin/vcheck.tmp.$$" bin/vcheck
rm -rf "bin/overlay.$$"
