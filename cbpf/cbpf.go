// Package cbpf interprets classic BPF seccomp programs over struct seccomp_data with the kernel's semantics
// (32-bit A/X, forward jumps only, word loads inside the 64-byte data area, the instruction subset accepted by
// seccomp_check_filter).
package cbpf

import (
	"fmt"
	"syscall"
)

// Data is struct seccomp_data.
type Data struct {
	Nr   uint32
	Arch uint32
	IP   uint64
	Args [6]uint64
}

func (d *Data) word(off uint32) uint32 {
	switch {
	case off == 0:
		return d.Nr
	case off == 4:
		return d.Arch
	case off == 8:
		return uint32(d.IP)
	case off == 12:
		return uint32(d.IP >> 32)
	default:
		i := (off - 16) / 8
		if (off-16)%8 == 0 {
			return uint32(d.Args[i])
		}
		return uint32(d.Args[i] >> 32)
	}
}

// Seccomp return classes (SECCOMP_RET_ACTION_FULL).
const (
	RetKillProcess = 0x80000000
	RetKillThread  = 0x00000000
	RetTrap        = 0x00030000
	RetErrno       = 0x00050000
	RetUserNotif   = 0x7fc00000
	RetTrace       = 0x7ff00000
	RetLog         = 0x7ffc0000
	RetAllow       = 0x7fff0000
	RetActionFull  = 0xffff0000
)

// Class names the action class of a filter return value.
func Class(ret uint32) string {
	switch ret & RetActionFull {
	case RetKillProcess:
		return "KILL_PROCESS"
	case RetKillThread:
		return "KILL_THREAD"
	case RetTrap:
		return "TRAP"
	case RetErrno:
		return "ERRNO"
	case RetUserNotif:
		return "USER_NOTIF"
	case RetTrace:
		return "TRACE"
	case RetLog:
		return "LOG"
	case RetAllow:
		return "ALLOW"
	}
	// the kernel treats unknown actions as KILL_PROCESS
	return fmt.Sprintf("UNKNOWN(%#x)", ret&RetActionFull)
}

// Shape is the result of the structural pass.
type Shape struct {
	LoadsNr, LoadsArch, LoadsOther bool
	UsesScratch, UsesX, UsesALU    bool
	UsesJset                       bool
	Consts                         []uint32 // jump constants
}

// Check verifies that the kernel would accept the program (seccomp_check_filter + bpf_check_classic essentials)
// and returns its shape.
func Check(p []syscall.SockFilter) (Shape, error) {
	var s Shape
	n := len(p)
	if n == 0 || n > 4096 {
		return s, fmt.Errorf("bad program length %d", n)
	}
	for i, ins := range p {
		switch ins.Code {
		case 0x20: // ld [k] (BPF_LD|BPF_W|BPF_ABS)
			if ins.K&3 != 0 || ins.K >= 64 {
				return s, fmt.Errorf("insn %d: load outside seccomp_data (k=%d)", i, ins.K)
			}
			switch ins.K {
			case 0:
				s.LoadsNr = true
			case 4:
				s.LoadsArch = true
			default:
				s.LoadsOther = true
			}
		case 0x80, 0x81: // ld len / ldx len
			s.LoadsOther = true
		case 0x00, 0x01: // ld imm / ldx imm
			if ins.Code == 0x01 {
				s.UsesX = true
			}
		case 0x60, 0x61, 0x02, 0x03: // ld mem / ldx mem / st / stx
			if ins.K >= 16 {
				return s, fmt.Errorf("insn %d: scratch index %d", i, ins.K)
			}
			s.UsesScratch = true
		case 0x07, 0x87: // tax, txa
			s.UsesX = true
		case 0x06, 0x16: // ret k, ret a
		case 0x05: // ja
			if uint64(i)+1+uint64(ins.K) >= uint64(n) {
				return s, fmt.Errorf("insn %d: ja out of range", i)
			}
		case 0x15, 0x25, 0x35, 0x45, 0x1d, 0x2d, 0x3d, 0x4d: // jeq/jgt/jge/jset k|x
			if i+1+int(ins.Jt) >= n || i+1+int(ins.Jf) >= n {
				return s, fmt.Errorf("insn %d: conditional jump out of range", i)
			}
			if ins.Code&0x08 != 0 {
				s.UsesX = true
			} else {
				s.Consts = append(s.Consts, ins.K)
			}
			if ins.Code&0xf0 == 0x40 {
				s.UsesJset = true
			}
		case 0x04, 0x0c, 0x14, 0x1c, 0x24, 0x2c, 0x34, 0x3c, 0x44, 0x4c, 0x54, 0x5c, 0x64, 0x6c, 0x74, 0x7c, 0x84, 0xa4, 0xac:
			s.UsesALU = true
			if ins.Code&0x08 != 0 {
				s.UsesX = true
			}
			if (ins.Code == 0x34) && ins.K == 0 {
				return s, fmt.Errorf("insn %d: division by zero constant", i)
			}
		default:
			return s, fmt.Errorf("insn %d: opcode %#x not accepted by seccomp", i, ins.Code)
		}
	}
	last := p[n-1].Code
	if last != 0x06 && last != 0x16 {
		return s, fmt.Errorf("last instruction is not a return")
	}
	return s, nil
}

// Run executes the (already checked) program and returns the filter's return value.
func Run(p []syscall.SockFilter, d *Data) uint32 {
	var a, x uint32
	var m [16]uint32
	for pc := 0; pc < len(p); pc++ {
		ins := &p[pc]
		switch ins.Code {
		case 0x20:
			a = d.word(ins.K)
		case 0x80:
			a = 64
		case 0x81:
			x = 64
		case 0x00:
			a = ins.K
		case 0x01:
			x = ins.K
		case 0x60:
			a = m[ins.K]
		case 0x61:
			x = m[ins.K]
		case 0x02:
			m[ins.K] = a
		case 0x03:
			m[ins.K] = x
		case 0x07:
			x = a
		case 0x87:
			a = x
		case 0x06:
			return ins.K
		case 0x16:
			return a
		case 0x05:
			pc += int(ins.K)
		case 0x15, 0x25, 0x35, 0x45, 0x1d, 0x2d, 0x3d, 0x4d:
			v := ins.K
			if ins.Code&0x08 != 0 {
				v = x
			}
			var c bool
			switch ins.Code & 0xf0 {
			case 0x10:
				c = a == v
			case 0x20:
				c = a > v
			case 0x30:
				c = a >= v
			case 0x40:
				c = a&v != 0
			}
			if c {
				pc += int(ins.Jt)
			} else {
				pc += int(ins.Jf)
			}
		default: // ALU
			v := ins.K
			if ins.Code&0x08 != 0 {
				v = x
			}
			switch ins.Code & 0xf0 {
			case 0x00:
				a += v
			case 0x10:
				a -= v
			case 0x20:
				a *= v
			case 0x30:
				if v == 0 {
					return 0
				}
				a /= v
			case 0x40:
				a |= v
			case 0x50:
				a &= v
			case 0x60:
				a <<= v & 31
			case 0x70:
				a >>= v & 31
			case 0x80:
				a = -a
			case 0x90:
				if v == 0 {
					return 0
				}
				a %= v
			case 0xa0:
				a ^= v
			}
		}
	}
	return 0
}
