package main

import (
	"context"
	"fmt"
	"os"
	"path/filepath"
	"runtime"
	"runtime/debug"
	"strings"
	"sync"
	"time"

	"github.com/criyle/go-sandbox/pkg/forkexec"
	"github.com/criyle/go-sandbox/ptracer"
	"github.com/criyle/go-sandbox/runner"
	"verif/mc"
)

// C17, family "two tracers, one string read": runs A and B are traced by two tracers of one process. A's program names a
// private path in a traced call, placed so that the tracer needs two reads of tracee memory for it (it straddles a page
// boundary); B's program makes one traced call whose pathname is an ordinary name of its own, or an unreadable pointer.
// B's whole consultation (its tracer's read of the string) is placed, through the verif point inside the tracer's read
// of tracee memory, at every instant of A's consultation: before A's, between A's two reads, after A's. In every
// placement each handler must be handed its own run's string (or the empty string for the unreadable pointer): scratch
// memory shared between the tracers — a hoisted buffer, a pool whose stale content survives a failed read — shows as
// another run's path.
type c17twoHandler struct {
	tag    string
	before func() // called on the tracer goroutine right before the string of a traced openat is read
	after  func() // … and right after it has been read
	got    []string
	mu     sync.Mutex
}

func (h *c17twoHandler) Debug(v ...interface{}) {}
func (h *c17twoHandler) Handle(c *ptracer.Context) ptracer.TraceAction {
	if c.SyscallNo() != 257 {
		return ptracer.TraceAllow
	}
	if h.before != nil {
		h.before()
	}
	s := c.GetString(uintptr(c.Arg1()))
	h.mu.Lock()
	h.got = append(h.got, s)
	h.mu.Unlock()
	if h.after != nil {
		h.after()
	}
	c.SetReturnValue(-13)
	return ptracer.TraceBan
}

func c17twoTracers(x *mc.X) {
	when := x.Pick("B's-consultation-placed", "before-A's", "between-A's-two-reads", "after-A's")
	bKind := x.Pick("B's-pathname", "own-name", "unreadable-pointer")
	x.Note("case", fmt.Sprintf("B's consultation %s; B's pathname: %s", when, bKind))
	if x.Dry() {
		return
	}
	// scratch memory kept per scheduler context would hide behind the number of contexts: one context for this execution
	old := runtime.GOMAXPROCS(1)
	defer runtime.GOMAXPROCS(old)
	// … and a pool would be emptied by the collector: no collection during this execution
	gc := debug.SetGCPercent(-1)
	defer debug.SetGCPercent(gc)
	dir := tmpDir("c17two")
	defer os.RemoveAll(dir)
	aPath := filepath.Join(dir, "run-A", "private-of-A-"+strings.Repeat("a", 40))
	bPath := filepath.Join(dir, "run-B", "own-of-B")
	aScript := "S " + aPath + "\nX 257 -100 @stm$0 0 0\nQ 0\n"
	bArg := "$0"
	if bKind == "unreadable-pointer" {
		bArg = "16" // an address no mapping covers (a PROT_NONE page would still be readable for PTRACE_PEEKDATA)
	}
	bScript := "S " + bPath + "\nX 257 -100 " + bArg + " 0 0\nQ 0\n"

	bGo, bDone, bParked := make(chan struct{}), make(chan struct{}), make(chan struct{})
	var reads int
	var mu sync.Mutex
	phase := "idle" // idle → A-reading → B-running → done
	hA := &c17twoHandler{tag: "A"}
	hB := &c17twoHandler{tag: "B"}
	hB.before = func() { close(bParked); <-bGo }
	runB := func() {
		mu.Lock()
		phase = "B-running"
		mu.Unlock()
		close(bGo)
		<-bDone
		mu.Lock()
		phase = "A-reading"
		mu.Unlock()
	}
	hA.before = func() {
		mu.Lock()
		phase = "A-reading"
		mu.Unlock()
		if when == "before-A's" {
			runB()
		}
	}
	hA.after = func() {
		if when == "after-A's" {
			runB()
		}
		mu.Lock()
		phase = "done"
		mu.Unlock()
	}
	ptracer.VerifVMRead = func() {
		mu.Lock()
		ph := phase
		if ph == "A-reading" {
			reads++
		}
		n := reads
		mu.Unlock()
		if ph == "A-reading" && n == 2 && when == "between-A's-two-reads" {
			runB()
		}
	}
	defer func() { ptracer.VerifVMRead = nil }()
	trace := func(script string, h *c17twoHandler, name string) (runner.Result, func()) {
		sf, _ := os.CreateTemp(dir, "script-"+name)
		sf.WriteString(script)
		sf.Seek(0, 0)
		ch := &forkexec.Runner{Args: []string{probe("sysrun")}, Env: []string{}, Files: []uintptr{sf.Fd(), devnull(), devnull()},
			Seccomp: c03Filter().SockFprog(), Ptrace: true, UnshareCgroupAfterSync: true}
		t := ptracer.Tracer{Handler: h, Runner: ch, Limit: bigLimit}
		ctx, cancel := context.WithTimeout(context.Background(), 30*time.Second)
		res := t.Trace(ctx)
		return res, func() { cancel(); sf.Close() }
	}
	var resA, resB runner.Result
	var wg sync.WaitGroup
	wg.Add(1)
	go func() {
		defer wg.Done()
		var fin func()
		resB, fin = trace(bScript, hB, "B")
		fin()
	}()
	go func() {
		// B's consultation is over when its handler has recorded the string
		for {
			hB.mu.Lock()
			n := len(hB.got)
			hB.mu.Unlock()
			if n > 0 {
				close(bDone)
				return
			}
			time.Sleep(time.Millisecond)
		}
	}()
	select {
	case <-bParked:
	case <-time.After(horizon):
		x.Failf("C17/harness", "two tracers: run B never reached its traced call")
		close(bGo)
		wg.Wait()
		return
	}
	done := make(chan struct{})
	go func() {
		var fin func()
		resA, fin = trace(aScript, hA, "A")
		fin()
		close(done)
	}()
	ok := withTimeout(3*horizon, func() { <-done; wg.Wait() })
	if !ok {
		x.Failf("C17/two-tracers/stuck", "B's consultation %s: the two runs did not both return", when)
		return
	}
	hA.mu.Lock()
	gotA := append([]string{}, hA.got...)
	hA.mu.Unlock()
	hB.mu.Lock()
	gotB := append([]string{}, hB.got...)
	hB.mu.Unlock()
	wantB := bPath
	if bKind == "unreadable-pointer" {
		wantB = ""
	}
	x.Note("result", fmt.Sprintf("A's handler was handed %q, B's %q; A %s, B %s; reads of tracee memory inside A's consultation: %d", gotA, gotB, statusName(resA.Status), statusName(resB.Status), reads))
	x.Distinct(fmt.Sprint("two", when, bKind, gotA, gotB, resA.Status, resB.Status))
	x.Outcome(fmt.Sprintf("two-tracers:%s:%s", when, bKind))
	if when == "between-A's-two-reads" && reads < 2 {
		x.Failf("C17/harness", "two tracers: A's string was read in %d piece(s), the placement between two reads did not happen", reads)
	}
	if len(gotA) != 1 || gotA[0] != aPath {
		x.Failf("C17/two-tracers/foreign-or-damaged-path/A", "B's consultation %s (B's pathname: %s): run A's handler was handed %q, its program named %q", when, bKind, gotA, aPath)
	}
	if len(gotB) != 1 || gotB[0] != wantB {
		x.Failf("C17/two-tracers/foreign-or-damaged-path/B", "B's consultation %s (B's pathname: %s): run B's handler was handed %q, expected %q", when, bKind, gotB, wantB)
	}
	if resA.Status != runner.StatusNormal || resB.Status != runner.StatusNormal {
		x.Failf("C17/two-tracers/verdict", "B's consultation %s: A ended %s %q, B ended %s %q, alone both end Normal", when, statusName(resA.Status), resA.Error, statusName(resB.Status), resB.Error)
	}
}
