package main

import (
	"bytes"
	"context"
	"encoding/json"
	"fmt"
	"os"
	"path/filepath"
	"strconv"
	"strings"
	"syscall"
	"time"

	"github.com/criyle/go-sandbox/container"
	"github.com/criyle/go-sandbox/pkg/forkexec"
	"github.com/criyle/go-sandbox/pkg/pipe"
	"github.com/criyle/go-sandbox/pkg/rlimit"
	"github.com/criyle/go-sandbox/runner"
	"github.com/criyle/go-sandbox/runner/ptrace"
	"github.com/criyle/go-sandbox/runner/unshare"
	"golang.org/x/sys/unix"
	"verif/mc"
)

// C08 — configured limits are in force; exhausting them yields the matching verdict; the capped collector.

// index in the probe's rlimits array = RLIMIT_* number
var c08res = []struct {
	name string
	res  int
}{{"cpu", unix.RLIMIT_CPU}, {"data", unix.RLIMIT_DATA}, {"fsize", unix.RLIMIT_FSIZE}, {"stack", unix.RLIMIT_STACK},
	{"as", unix.RLIMIT_AS}, {"nofile", unix.RLIMIT_NOFILE}, {"core", unix.RLIMIT_CORE}}

// value alphabet per field: 0 = not configured, small, above 2^32
var c08vals = map[string][3]uint64{
	"cpu":    {0, 7, 1<<32 + 5},
	"data":   {0, 64 << 20, 1<<32 + 4096},
	"fsize":  {0, 1 << 20, 1<<32 + 1},
	"stack":  {0, 1 << 20, 1<<32 + 8192},
	"as":     {0, 256 << 20, 1<<33 + 4096},
	"nofile": {0, 32, 60000},
}

type c08limits struct {
	rl      rlimit.RLimits
	cpuHard int // 0 unset, 1 below cpu, 2 equal, 3 above
}

func (l c08limits) String() string { return fmt.Sprintf("%+v", l.rl) }

// expected (cur,max) per resource number, given the launcher's own limits
func c08expect(l rlimit.RLimits, own [][2]uint64) map[int][2]uint64 {
	exp := map[int][2]uint64{}
	for _, r := range c08res {
		exp[r.res] = own[r.res]
	}
	set := func(res int, cur, max uint64) { exp[res] = [2]uint64{cur, max} }
	if l.CPU > 0 {
		h := l.CPUHard
		if h < l.CPU {
			h = l.CPU
		}
		set(unix.RLIMIT_CPU, l.CPU, h)
	}
	if l.Data > 0 {
		set(unix.RLIMIT_DATA, l.Data, l.Data)
	}
	if l.FileSize > 0 {
		set(unix.RLIMIT_FSIZE, l.FileSize, l.FileSize)
	}
	if l.Stack > 0 {
		set(unix.RLIMIT_STACK, l.Stack, l.Stack)
	}
	if l.AddressSpace > 0 {
		set(unix.RLIMIT_AS, l.AddressSpace, l.AddressSpace)
	}
	if l.OpenFile > 0 {
		set(unix.RLIMIT_NOFILE, l.OpenFile, l.OpenFile)
	}
	if l.DisableCore {
		set(unix.RLIMIT_CORE, 0, 0)
	}
	return exp
}

func ownLimits() [][2]uint64 {
	out := make([][2]uint64, 16)
	for i := range out {
		var rl unix.Rlimit
		unix.Getrlimit(i, &rl)
		out[i] = [2]uint64{rl.Cur, rl.Max}
	}
	return out
}

func c08compare(x *mc.X, who string, l rlimit.RLimits, rep *report, own [][2]uint64) string {
	exp := c08expect(l, own)
	desc := ""
	for _, r := range c08res {
		got := rep.Rlimits[r.res]
		if got != exp[r.res] {
			kind := "configured"
			if exp[r.res] == own[r.res] {
				kind = "unconfigured"
			}
			x.Failf(fmt.Sprintf("C08/%s/rlimit-%s-%s-wrong", who, r.name, kind), "%s limits %+v: %s is (%d,%d) in the program, expected (%d,%d)",
				who, l, r.name, got[0], got[1], exp[r.res][0], exp[r.res][1])
			desc += "!"
		} else if exp[r.res] == own[r.res] {
			desc += "i"
		} else {
			desc += "c"
		}
	}
	return desc
}

func c08nrOpen() uint64 {
	b, _ := os.ReadFile("/proc/sys/fs/nr_open")
	n, _ := strconv.ParseUint(strings.TrimSpace(string(b)), 10, 64)
	if n == 0 {
		n = 1 << 20
	}
	return n
}

func c08pickLimits(x *mc.X, full bool) rlimit.RLimits {
	var l rlimit.RLimits
	pick := func(name string) uint64 {
		n := 2
		if full {
			n = 3
		}
		return c08vals[name][x.Choose(n, name)]
	}
	l.CPU = pick("cpu")
	if l.CPU > 0 {
		switch x.Choose(4, "cpuhard") {
		case 1:
			l.CPUHard = l.CPU - 1
		case 2:
			l.CPUHard = l.CPU
		case 3:
			l.CPUHard = l.CPU + 3
		}
	}
	l.Data = pick("data")
	l.FileSize = pick("fsize")
	l.Stack = pick("stack")
	l.AddressSpace = pick("as")
	l.OpenFile = pick("nofile")
	l.DisableCore = x.Bool("nocore")
	// an entry the kernel refuses whoever asks (an open-file limit above fs.nr_open), at a place in the list that is not
	// the last whenever another limit follows it: the launch is refused — or the value is in force; never a program that
	// runs under some other value
	if x.Bool("open-file-limit-above-nr_open") {
		l.OpenFile = c08nrOpen() + 1
	}
	return l
}

func init() {
	registry["C08"] = func(tier string) *mc.Spec {
		spec := &mc.Spec{
			Level: "exploration",
			Rule: "family 0: limit records (every zero/non-zero pattern of the 7 fields; thorough: every field over {0, small, >2^32}; CPUHard below/equal/above CPU; the open-file limit also above fs.nr_open, which the kernel refuses: refused launch or value in force) → PrepareRLimit → real launch → getrlimit in the program; " +
				"family 1: the same through container.Execve as two-run histories on one container (limits A then limits B) and through the ptrace and namespace runners; " +
				"family 2: programs that exceed RLIMIT_CPU, RLIMIT_FSIZE, the runner's time bound and memory bound under each runner → verdict and measurements; " +
				"family 3: output collector, cap N × volume × writer chunk size × sink (the package's buffer, or a caller's writer that fails at once / after 10 / after 4096 bytes). non-trivial: at least one limit configured / volume>0; distinct = (family, configuration, observation)",
			Bound:       map[string]any{"namespace_runner_scope": "its program is a pid-namespace init: SIGXCPU at the soft limit and SIGXFSZ are discarded by the kernel; TLE there comes from the hard-limit SIGKILL and no OLE is expected"},
			Assumptions: []string{"verdict clauses are conditional on the kernel actually terminating the program"},
			SplitDepth:  3,
			Workers:     4,
			Horizon:     120 * time.Second,
		}
		spec.Init = func() error { devnull(); return nil }
		spec.Fini = func() { c09pool.drop(); cleanupTmp() }
		spec.Body = func(x *mc.X) {
			switch x.Choose(4, "family") {
			case 0:
				c08direct(x, tier == "thorough")
			case 1:
				c08runners(x, tier == "thorough")
			case 2:
				c08verdicts(x)
			case 3:
				c08collector(x, tier == "thorough")
			}
		}
		return spec
	}
}

func c08direct(x *mc.X, full bool) {
	l := c08pickLimits(x, full)
	// the caller's descriptors may have numbers above the open-file limit it configures for the program: the limit
	// governs the program, not the launcher's own descriptor shuffle
	high := false
	if l.OpenFile == 32 {
		high = x.Bool("caller-descriptors-above-the-open-file-limit")
	}
	x.Note("family", "forkexec")
	x.Note("limits", l.String())
	x.Note("caller-descriptors-above-the-limit", high)
	if x.Dry() {
		return
	}
	own := ownLimits()
	out := filepath.Join(tmpDir("c08"), "r.json")
	defer os.RemoveAll(filepath.Dir(out))
	// the record is the caller's: preparing the list must not write into it (a reused record would carry derived values
	// into the next run), and preparing twice must give the same list
	before := l
	list := l.PrepareRLimit()
	if l != before {
		x.Failf("C08/prepare-writes-into-record", "PrepareRLimit changed the caller's record from %+v to %+v", before, l)
		l = before
	}
	if again := l.PrepareRLimit(); fmt.Sprint(again) != fmt.Sprint(list) {
		x.Failf("C08/prepare-not-repeatable", "record %+v: a second PrepareRLimit gives %v, the first gave %v", before, again, list)
	}
	l = before
	files := stdioNull()
	if high {
		for i := range files {
			n := 200 + i
			if err := unix.Dup3(int(devnull()), n, unix.O_CLOEXEC); err != nil {
				x.Failf("C08/harness", "dup3 to %d: %v", n, err)
				return
			}
			defer unix.Close(n)
			files[i] = uintptr(n)
		}
	}
	r := &forkexec.Runner{Args: []string{probe("report"), "--outfile=" + out, "--nofds"}, Env: []string{}, Files: files, RLimits: list}
	pid, err := r.Start()
	if err != nil && high {
		x.Failf("C08/forkexec/launch-refused-by-own-limit", "limits %+v with the caller's descriptors at 200..202: the launch failed: %v (the same record launches with low descriptors)", l, err)
		x.Outcome("rejected")
		return
	}
	if err != nil {
		x.Note("launch-error", err.Error())
		x.Outcome("rejected")
		return
	}
	var ws syscall.WaitStatus
	syscall.Wait4(pid, &ws, 0, nil)
	rep, err := readReport(out)
	if err != nil {
		x.Failf("C08/forkexec/no-report", "limits %+v: program did not report: %v (wait status %#x)", l, err, uint32(ws))
		x.Outcome("no-report")
		return
	}
	d := c08compare(x, "forkexec", l, rep, own)
	if (l != rlimit.RLimits{}) {
		x.Distinct("d" + l.String() + fmt.Sprint(high) + d)
	}
	x.Outcome("forkexec:" + d)
}

func c08runners(x *mc.X, full bool) {
	lims := []rlimit.RLimits{{}, {CPU: 3, CPUHard: 5, FileSize: 1 << 20, Stack: 16 << 20, OpenFile: 64, DisableCore: true}, {Data: 128 << 20, AddressSpace: 512 << 20}, {CPU: 9}}
	which := x.Pick("runner", "container-history", "ptrace", "unshare")
	own := ownLimits()
	switch which {
	case "container-history":
		a := x.Choose(len(lims), "first")
		b := x.Choose(len(lims), "second")
		syncAfter := x.Bool("syncafter")
		x.Note("history", fmt.Sprintf("%+v then %+v", lims[a], lims[b]))
		if x.Dry() {
			return
		}
		c, err := newContainer(nil) // a fresh environment per history: the point is what the second run inherits
		if err != nil {
			x.Failf("C08/harness", "container: %v", err)
			return
		}
		defer c.Destroy()
		d := ""
		for i, l := range []rlimit.RLimits{lims[a], lims[b]} {
			p := execveParam([]string{"/probe/report", "--outfile=/w/r.json", "--nofds"})
			p.RLimits = l.PrepareRLimit()
			p.SyncAfterExec = syncAfter
			c.Delete("/w/r.json")
			ctx, cancel := context.WithTimeout(context.Background(), 30*time.Second)
			res := c.Execve(ctx, p)
			cancel()
			if res.Status != runner.StatusNormal {
				x.Failf("C08/container/run-failed", "run %d with %+v: %v %s", i+1, l, res.Status, res.Error)
				return
			}
			rep, err := c08containerReport(c)
			if err != nil {
				x.Failf("C08/container/no-report", "run %d: %v", i+1, err)
				return
			}
			// unconfigured limits are those of the container init, which inherited the launcher's
			d += c08compare(x, fmt.Sprintf("container-run%d", i+1), l, rep, own) + "/"
		}
		x.Distinct(fmt.Sprint("h", a, b, syncAfter, d))
		x.Outcome("container:" + d)
	case "ptrace", "unshare":
		k := x.Choose(len(lims), "limits")
		l := lims[k]
		x.Note("limits", l.String())
		if x.Dry() {
			return
		}
		outDir := tmpDir("c08o")
		os.Chmod(outDir, 0777)
		defer os.RemoveAll(outDir)
		var res runner.Result
		ctx, cancel := context.WithTimeout(context.Background(), 30*time.Second)
		defer cancel()
		if which == "ptrace" {
			res = runPtrace(ctx, []string{probe("report"), "--outfile=" + filepath.Join(outDir, "r.json"), "--nofds"}, func(r *ptrace.Runner) { r.RLimits = l.PrepareRLimit() })
		} else {
			res = runUnshare(ctx, []string{"/probe/report", "--outfile=/w/r.json", "--nofds"}, func(r *unshare.Runner) {
				r.RLimits = l.PrepareRLimit()
				// make /w a bind of outDir so the report is readable from the host
				r.Mounts = mustMounts(outDir)
			})
		}
		if res.Status != runner.StatusNormal {
			x.Failf("C08/"+which+"/run-failed", "limits %+v: %v %s", l, res.Status, res.Error)
			return
		}
		rep, err := readReport(filepath.Join(outDir, "r.json"))
		if err != nil {
			x.Failf("C08/"+which+"/no-report", "%v", err)
			return
		}
		d := c08compare(x, which, l, rep, own)
		x.Distinct(fmt.Sprint(which, k, d))
		x.Outcome(which + ":" + d)
	}
}

func c08containerReport(c container.Environment) (*report, error) {
	fr, err := c.Open([]container.OpenCmd{{Path: "/w/r.json", Flag: os.O_RDONLY}})
	if err != nil {
		return nil, err
	}
	if len(fr) != 1 || fr[0].Err != nil {
		return nil, fmt.Errorf("open report: %v", fr)
	}
	defer fr[0].File.Close()
	var rep report
	if err := json.NewDecoder(fr[0].File).Decode(&rep); err != nil {
		return nil, err
	}
	return &rep, nil
}

func c08verdicts(x *mc.X) {
	setup := x.Pick("setup", "ptrace", "unshare", "container", "container-syncafter")
	what := x.Pick("overrun", "rlimit-cpu", "rlimit-fsize", "time-bound", "memory-bound")
	// how the program ends once it is over the runner's bound: the verdict is about the measurement, not about the ending
	ending := "exit 0"
	if (what == "time-bound" || what == "memory-bound") && (setup == "ptrace" || setup == "unshare") {
		ending = x.Pick("ending", "exit 0", "exit 3", "raise 11")
	}
	if x.Dry() {
		return
	}
	if ending == "raise 11" && setup == "unshare" {
		x.Outcome("n/a:namespace-init-discards-self-raised-signals")
		return
	}
	var argv []string
	var rl rlimit.RLimits
	limit := bigLimit
	var want runner.Status
	switch what {
	case "rlimit-cpu":
		argv = []string{probe("burn"), "cpu"}
		rl = rlimit.RLimits{CPU: 1, CPUHard: 1}
		want = runner.StatusTimeLimitExceeded
	case "rlimit-fsize":
		argv = []string{probe("burn"), "grow", "/tmp/grow.out"}
		if setup == "ptrace" {
			argv[2] = filepath.Join(tmpDir("c08g"), "grow.out")
			defer os.RemoveAll(filepath.Dir(argv[2]))
		}
		rl = rlimit.RLimits{FileSize: 1 << 20}
		want = runner.StatusOutputLimitExceeded
		if setup == "unshare" {
			x.Outcome("skipped:namespace-init-gets-EFBIG-not-SIGXFSZ")
			return
		}
	case "time-bound":
		argv = append([]string{probe("burn"), "cpufor", "300"}, strings.Fields(ending)...)
		limit.TimeLimit = 100 * time.Millisecond
		want = runner.StatusTimeLimitExceeded
	case "memory-bound":
		argv = append([]string{probe("burn"), "mem", strconv.Itoa(96 << 20)}, strings.Fields(ending)...)
		limit.MemoryLimit = runner.Size(32 << 20)
		want = runner.StatusMemoryLimitExceeded
	}
	if (what == "time-bound" || what == "memory-bound") && (setup == "container" || setup == "container-syncafter") {
		// the container runner has no time/memory bound of its own (its callers use cgroups); it reports the measurements
		want = runner.StatusNormal
	}
	ctx, cancel := context.WithTimeout(context.Background(), 30*time.Second)
	defer cancel()
	var res runner.Result
	switch setup {
	case "ptrace":
		res = runPtrace(ctx, argv, func(r *ptrace.Runner) { r.RLimits = rl.PrepareRLimit(); r.Limit = limit })
	case "unshare":
		a := append([]string{"/probe/burn"}, argv[1:]...)
		res = runUnshare(ctx, a, func(r *unshare.Runner) { r.RLimits = rl.PrepareRLimit(); r.Limit = limit })
	default:
		c, err := c09pool.get()
		if err != nil {
			x.Failf("C08/harness", "%v", err)
			return
		}
		p := execveParam(append([]string{"/probe/burn"}, argv[1:]...))
		p.RLimits = rl.PrepareRLimit()
		p.SyncAfterExec = setup == "container-syncafter"
		res = c.Execve(ctx, p)
		if res.Status == runner.StatusRunnerError {
			c09pool.drop()
		}
	}
	x.Note("result", fmt.Sprintf("%s time=%v mem=%v exit=%d %s", statusName(res.Status), res.Time, res.Memory, res.ExitStatus, res.Error))
	x.Distinct(fmt.Sprint("v", setup, what, ending, res.Status))
	x.Outcome("verdict:" + statusName(res.Status))
	if res.Status != want {
		x.Failf(fmt.Sprintf("C08/%s/%s-verdict-%s", setup, what, statusName(res.Status)), "%s (program then ends with %s) under %s: %s (time %v, memory %v, %s), expected %s",
			what, ending, setup, statusName(res.Status), res.Time, res.Memory, res.Error, statusName(want))
		return
	}
	switch what {
	case "time-bound", "rlimit-cpu":
		// the verdict comes with the measurement that justifies it: more than the bound (the run may be ended as soon as the
		// bound is passed, so nothing is assumed about how far the program got); the kernel's CPU limit fires at one second
		min := limit.TimeLimit
		if what == "rlimit-cpu" {
			min = 900 * time.Millisecond
		}
		if res.Time < min {
			x.Failf(fmt.Sprintf("C08/%s/%s-time-not-reported", setup, what), "%s under %s: measured CPU time %v is not reported (expected ≥ %v)", what, setup, res.Time, min)
		}
	case "memory-bound":
		if res.Memory < runner.Size(90<<20) {
			x.Failf(fmt.Sprintf("C08/%s/memory-not-reported", setup), "memory-bound under %s: measured memory %v, the program touched 96 MiB", setup, res.Memory)
		}
	}
}

// c08failingSink accepts limit bytes and fails every write from then on.
type c08failingSink struct {
	limit int
	got   bytes.Buffer
}

func (f *c08failingSink) Write(p []byte) (int, error) {
	room := f.limit - f.got.Len()
	if room <= 0 {
		return 0, fmt.Errorf("sink: no space left")
	}
	if len(p) > room {
		f.got.Write(p[:room])
		return room, fmt.Errorf("sink: no space left")
	}
	return f.got.Write(p)
}

func c08collector(x *mc.X, full bool) {
	caps := []int64{0, 1, 2, 4095, 4096, 65536}
	n := caps[x.Choose(len(caps), "cap")]
	vols := []int64{0, n - 1, n, n + 1, n + 2, n + 65536}
	if full {
		vols = append(vols, 16<<20)
	}
	v := vols[x.Choose(len(vols), "volume")]
	chunks := []int64{1, 4096, 1 << 20}
	ch := chunks[x.Choose(len(chunks), "chunk")]
	// where the collected bytes go: the package's own buffer, or (NewPipe) a caller's writer that starts to fail after it
	// accepted k bytes — a full disk, a closed connection; the writing program must not notice that either
	sinks := []string{"buffer", "sink-fails-at-once", "sink-fails-after-10-bytes", "sink-fails-after-4096-bytes"}
	sink := sinks[x.Choose(len(sinks), "sink")]
	x.Note("collector", fmt.Sprintf("cap=%d volume=%d chunk=%d sink=%s", n, v, ch, sink))
	if v < 0 || (ch == 1 && v > 200000) {
		x.Outcome("skipped")
		return
	}
	if x.Dry() {
		return
	}
	var buf *pipe.Buffer
	var err error
	if sink == "buffer" {
		buf, err = pipe.NewBuffer(n)
	} else {
		fs := &c08failingSink{limit: map[string]int{"sink-fails-at-once": 0, "sink-fails-after-10-bytes": 10, "sink-fails-after-4096-bytes": 4096}[sink]}
		var done <-chan struct{}
		var w *os.File
		done, w, err = pipe.NewPipe(fs, n+1)
		buf = &pipe.Buffer{W: w, Done: done, Max: n, Buffer: &fs.got}
	}
	if err != nil {
		x.Failf("C08/harness", "%v", err)
		return
	}
	r := &forkexec.Runner{Args: []string{probe("burn"), "write", "1", fmt.Sprint(v), fmt.Sprint(ch)}, Env: []string{}, Files: []uintptr{devnull(), buf.W.Fd(), devnull()}}
	pid, err := r.Start()
	buf.W.Close()
	if err != nil {
		x.Failf("C08/harness", "start: %v", err)
		return
	}
	var ws syscall.WaitStatus
	exited := withTimeout(horizon*3, func() { syscall.Wait4(pid, &ws, 0, nil) })
	if !exited {
		syscall.Kill(pid, syscall.SIGKILL)
		x.Failf("C08/collector/writer-blocked", "cap %d volume %d chunk %d: the writing program did not finish (blocked on the collector)", n, v, ch)
		return
	}
	select {
	case <-buf.Done:
	case <-time.After(horizon):
		x.Failf("C08/collector/done-not-closed", "cap %d volume %d chunk %d: Done not closed after the writer exited", n, v, ch)
		return
	}
	got := int64(buf.Buffer.Len())
	want := v
	if want > n+1 {
		want = n + 1
	}
	if v > 0 {
		x.Distinct(fmt.Sprint("c", n, v, ch, sink, got, ws))
	}
	x.Outcome(fmt.Sprintf("collector:retained%+d", got-n))
	if !ws.Exited() || ws.ExitStatus() != 0 {
		x.Failf("C08/collector/writer-broken", "cap %d volume %d chunk %d sink %s: writer ended with status %#x (91 short write, 92 write error, signal = SIGPIPE)", n, v, ch, sink, uint32(ws))
	}
	if got > n+1 {
		x.Failf("C08/collector/retains-too-much", "cap %d volume %d chunk %d: collector retained %d bytes (> N+1)", n, v, ch, got)
	}
	_ = want // retaining fewer bytes than were written below the cap is not part of the property; it only shows in the outcome classes
}
