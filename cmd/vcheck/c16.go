package main

import (
	"bufio"
	"context"
	"fmt"
	"os"
	"os/exec"
	"strconv"
	"strings"
	"sync/atomic"
	"syscall"
	"time"

	"github.com/criyle/go-sandbox/container"
	"github.com/criyle/go-sandbox/pkg/forkexec"
	"github.com/criyle/go-sandbox/ptracer"
	"verif/mc"
)

// C16 — if the controlling process dies, the sandbox dies with it (crash-point enumeration).
// The controller runs in a helper process (this binary, role c16ctl) that parks itself at the chosen point and says so;
// the check SIGKILLs it there and watches the container init and every process of the program.

type c16point struct {
	name    string
	side    string
	id, arg int
}

var c16points = []c16point{
	{"idle-after-build", "", 0, 0},
	{"host@send-pre", "H", container.VPHostSendPre, -1}, {"host@send-post", "H", container.VPHostSendPost, -1}, {"host@recv", "H", container.VPHostRecv, -1},
	{"inside-callback", "", 0, 0},
	{"host@send-pre(ok)", "H", container.VPHostSendPre, 6}, {"host@select", "H", container.VPHostSelect, -1}, {"while-program-runs", "", 0, 0},
	{"container@dispatch", "C", container.VPContDispatch, -1}, {"container@started", "C", container.VPContStarted, -1}, {"container@select", "C", container.VPContSelect, -1},
	{"container@reply-withheld", "C", container.VPContSendPre, -1},
	{"build@init-command-running", "", 0, 0},
}

// "+uid-dropped": the controller built the environment as root and then switched to an ordinary uid (a daemon that sheds
// its privileges): the kernel then refuses to deliver the controller's parent-death signal to the init (it is sent with
// the dying parent's credentials), so only the control socket tells the init that its controller is gone
var c16ops = []string{"ping", "open", "reset", "execve", "execve-syncafter", "execve+uid-dropped", "execve-syncafter+uid-dropped"}

const c16shape = "i,d,p+,o"

// controller role: c16ctl <op> <point index> <nonce>
func c16ctl(args []string) int {
	op := args[0]
	pi, _ := strconv.Atoi(args[1])
	nonce := os.Getenv("C16_NONCE") // not in argv: the controller itself must not match the scan
	pt := c16points[pi]
	devnull()
	at := func() {
		fmt.Println("AT")
		os.Stdout.Sync()
		select {}
	}
	if pt.name == "build@init-command-running" {
		// the init runs the command while it serves conf; Build blocks meanwhile. The check sees the command by its nonce.
		newContainer(func(b *container.Builder) { b.InitCommand = []string{"/probe/burn", "pause", nonce} })
		return 3
	}
	env, err := c10build()
	if err != nil {
		fmt.Println("ERR", err)
		return 3
	}
	if strings.HasSuffix(op, "+uid-dropped") {
		op = strings.TrimSuffix(op, "+uid-dropped")
		// for this controller the init must learn of its death from the control socket, which it cannot while it is parked
		// inside a verif point: parked points are let go when the controller is gone
		env.ctl.ReleaseOnEOF()
		syscall.Setgroups([]int{65534})
		syscall.Setresgid(65534, 65534, 65534)
		if err := syscall.Setresuid(65534, 65534, 65534); err != nil {
			fmt.Println("ERR", err)
			return 3
		}
	}
	if pt.name == "idle-after-build" {
		at()
	}
	if pt.side != "" {
		h := env.ctl.Hold(pt.side, pt.id, pt.arg)
		go func() {
			if h.WaitParked(horizon) {
				at()
			}
		}()
	}
	switch op {
	case "ping":
		env.c.Ping()
	case "open":
		env.c.Open([]container.OpenCmd{{Path: "/w/f", Flag: os.O_CREATE | os.O_WRONLY, Perm: 0644}})
	case "reset":
		env.c.Reset()
	case "execve", "execve-syncafter":
		p := execveParam([]string{"/probe/tree", nonce, c16shape, "pause"})
		p.SyncAfterExec = op == "execve-syncafter"
		p.SyncFunc = func(int) error {
			if pt.name == "inside-callback" {
				at()
			}
			return nil
		}
		if pt.name == "while-program-runs" {
			go func() {
				env.ctl.WaitEvent(0, "H", container.VPHostSelect, -1, horizon)
				waitUntil(horizon, func() bool { return len(scanNonce(nonce)) >= 5 })
				at()
			}()
		}
		env.c.Execve(context.Background(), p)
	}
	fmt.Println("DONE")
	os.Stdout.Sync()
	select {}
}

// tracer controller role: c16trace <step> <nonce>
type c16stepper struct {
	k       int
	n       int32
	options int32 // "set ptrace option" announcements seen before the current step
}

func (h *c16stepper) Handle(*ptracer.Context) ptracer.TraceAction { return ptracer.TraceAllow }
func (h *c16stepper) Debug(v ...interface{}) {
	i := int(atomic.AddInt32(&h.n, 1)) - 1
	if h.k >= 0 {
		// progress is announced so that the check can tell "the run has fewer steps" from "the helper is slow"
		fmt.Println("STEP", i)
		os.Stdout.Sync()
	}
	if i == h.k {
		if atomic.LoadInt32(&h.options) == 0 {
			fmt.Println("AT before-options-set")
		} else {
			fmt.Println("AT")
		}
		os.Stdout.Sync()
		select {}
	}
	if len(v) > 0 {
		if s, ok := v[0].(string); ok && strings.HasPrefix(s, "set ptrace option") {
			atomic.AddInt32(&h.options, 1)
		}
	}
}

func c16trace(args []string) int {
	k, _ := strconv.Atoi(args[0])
	nonce := os.Getenv("C16_NONCE")
	devnull()
	shape := "i,p+,o"
	if s := os.Getenv("C16_TREE"); s != "" {
		shape = s
	}
	ch := &forkexec.Runner{Args: []string{probe("tree"), nonce, shape, "pause"}, Env: []string{}, Files: stdioNull(), Seccomp: allowAll().SockFprog(), Ptrace: true, UnshareCgroupAfterSync: true}
	if os.Getenv("C16_NOFILTER") == "1" {
		ch.Seccomp = nil
	}
	t := ptracer.Tracer{Handler: &c16stepper{k: k}, Runner: ch, Limit: bigLimit}
	t.Trace(context.Background())
	fmt.Println("DONE")
	os.Stdout.Sync()
	select {}
}

// tracer controller on the vfork launch path (ptrace without a filter or callback): the child is held at the verif child
// gate (before setsid, i.e. before PTRACE_TRACEME) while the controller's launching thread is suspended in vfork
func c16vfork(args []string) int {
	nonce := os.Getenv("C16_NONCE")
	devnull()
	forkexec.VerifChildGateFd = 3 // read end of the gate pipe, inherited from the check
	ch := &forkexec.Runner{Args: []string{probe("tree"), nonce, "p+", "pause"}, Env: []string{}, Files: stdioNull(), Ptrace: true}
	if os.Getenv("C16_CRED") == "1" {
		// the child changes its credentials before it reaches the gate (the kernel forgets a parent-death signal when the
		// effective ids change)
		ch.Credential = &syscall.Credential{Uid: 10001, Gid: 10001}
	}
	t := ptracer.Tracer{Handler: &c16stepper{k: -1}, Runner: ch, Limit: bigLimit}
	t.Trace(context.Background())
	fmt.Println("DONE")
	select {}
}

func init() {
	aux["c16ctl"] = c16ctl
	aux["c16trace"] = c16trace
	aux["c16vfork"] = c16vfork
	registry["C16"] = func(tier string) *mc.Spec {
		spec := &mc.Spec{
			Level: "fault_enumeration",
			Rule: "container: operation ∈ {ping, open, reset, execve (sync before / after exec) of a process tree with a signal-ignoring child, a double-forked daemon, a grandchild and a HUP/TERM-ignoring child} × crash point ∈ {idle after build, host held at send-pre / send-post / recv, inside the callback, send-pre(ok), select, while the program runs, " +
				"container held at dispatch / started / select / reply withheld, while the init runs a long init command during build}: the controller (a helper process; for the execve operations also one that switched to an ordinary uid after Build, whose parent-death signal the kernel refuses to deliver) is SIGKILLed exactly there; tracer: the tracing process is SIGKILLed at every tracer step of a run of the same kind of tree (descendants made by fork, or by clone(CLONE_UNTRACED); with a filter, and — first 12 steps — without one, where the child's first stop is its exec's SIGTRAP), and on the vfork launch path while its child is held before PTRACE_TRACEME (child released afterwards or never; with and without a credential switch in the child). " +
				"Oracle: the container init and every process carrying the run's nonce are gone within the horizon without further action. distinct = (operation, crash point, what was alive before / after)",
			Bound:       map[string]any{"tree": c16shape, "tracer_steps": 40},
			Assumptions: []string{"a launcher child that has not exec'ed the target yet is not an untrusted process", "the three mechanisms (parent-death signal, socket EOF, pid-namespace teardown; PTRACE_O_EXITKILL) overlap: crash points where only one of them applies are in the alphabet on purpose (container held inside a point that does not watch the socket; init busy with the init command)"},
			SplitDepth:  2,
			Workers:     4,
			Horizon:     120 * time.Second,
		}
		spec.Init = func() error { devnull(); return nil }
		spec.Fini = cleanupTmp
		spec.Body = func(x *mc.X) {
			switch x.Choose(3, "family") {
			case 1:
				c16tracer(x, tier)
				return
			case 2:
				c16vforkLaunch(x)
				return
			}
			op := c16ops[x.Choose(len(c16ops), "op")]
			pi := x.Choose(len(c16points), "point")
			pt := c16points[pi]
			x.Note("crash", fmt.Sprintf("controller killed: %s, %s", op, pt.name))
			isExec := strings.HasPrefix(op, "execve")
			if !isExec && (pt.name == "inside-callback" || pt.name == "host@send-pre(ok)" || pt.name == "host@select" || pt.name == "while-program-runs" ||
				pt.name == "container@started" || pt.name == "container@select") {
				x.Outcome("n/a")
				return
			}
			if (pt.name == "idle-after-build" || pt.name == "build@init-command-running") && op != "ping" {
				x.Outcome("n/a")
				return
			}
			if strings.HasSuffix(op, "+uid-dropped") && !(pt.name == "inside-callback" || pt.name == "host@send-pre(ok)" || pt.name == "host@select" || pt.name == "while-program-runs" ||
				pt.name == "container@started" || pt.name == "container@select") {
				x.Outcome("n/a") // the crash points of the synchronisation window and of the running program are enough for this controller
				return
			}
			if x.Dry() {
				return
			}
			nonce := newNonce()
			self, _ := os.Executable()
			cmd := exec.Command(self, "c16ctl", op, fmt.Sprint(pi))
			cmd.Env = append(os.Environ(), "C16_NONCE="+nonce)
			cmd.SysProcAttr = &syscall.SysProcAttr{Setsid: true}
			out, _ := cmd.StdoutPipe()
			cmd.Stderr = os.Stderr
			if err := cmd.Start(); err != nil {
				x.Failf("C16/harness", "%v", err)
				return
			}
			defer func() { cmd.Process.Kill(); cmd.Wait() }()
			reached := make(chan string, 1)
			go func() {
				sc := bufio.NewScanner(out)
				for sc.Scan() {
					reached <- sc.Text()
					return
				}
				reached <- "EOF"
			}()
			var said string
			if pt.name == "build@init-command-running" {
				if waitUntil(horizon, func() bool { return len(scanNonce(nonce)) > 0 }) {
					said = "AT"
				}
			} else {
				select {
				case said = <-reached:
				case <-time.After(horizon):
				}
			}
			inits := childInits(cmd.Process.Pid)
			if said != "AT" {
				x.Outcome("point-not-reached:" + said)
				for _, p := range inits {
					syscall.Kill(p, syscall.SIGKILL)
				}
				killNonce(nonce)
				return
			}
			before := len(scanNonce(nonce))
			// the crash
			syscall.Kill(cmd.Process.Pid, syscall.SIGKILL)
			cmd.Wait()
			gone := waitUntil(horizon, func() bool {
				for _, p := range inits {
					if pidAlive(p) {
						return false
					}
				}
				return len(scanNonce(nonce)) == 0
			})
			x.Distinct(fmt.Sprint(op, pt.name, before, gone))
			x.Outcome(fmt.Sprintf("killed:alive-before=%v:gone=%v", before > 0, gone))
			if len(inits) == 0 {
				x.Failf("C16/harness", "no container init found under controller %d", cmd.Process.Pid)
			}
			if !gone {
				var left []string
				for _, p := range inits {
					if pidAlive(p) {
						left = append(left, fmt.Sprintf("init %d", p))
					}
				}
				for _, p := range scanNonce(nonce) {
					left = append(left, fmt.Sprintf("program process %d", p))
				}
				x.Failf("C16/container/survives/"+pt.name, "controller killed during %s at %s: still alive after the horizon: %v", op, pt.name, left)
				for _, p := range inits {
					syscall.Kill(p, syscall.SIGKILL)
				}
				killNonce(nonce)
			}
		}
		return spec
	}
}

// childInits returns the pids of container inits that are children of pid.
func childInits(pid int) []int {
	var out []int
	ents, _ := os.ReadDir(fmt.Sprintf("/proc/%d/task", pid))
	for _, e := range ents {
		b, _ := os.ReadFile(fmt.Sprintf("/proc/%d/task/%s/children", pid, e.Name()))
		for _, f := range strings.Fields(string(b)) {
			c, _ := strconv.Atoi(f)
			cl, _ := os.ReadFile(fmt.Sprintf("/proc/%d/cmdline", c))
			if strings.Contains(string(cl), "container_init") {
				out = append(out, c)
			}
		}
	}
	return out
}

func c16tracer(x *mc.X, tier string) {
	k := x.Choose(40, "tracer-step")
	// the program's descendants: ordinary forks (ignoring signals, outliving the parent), or children created with
	// clone(CLONE_UNTRACED), which the tracer's fork/clone options cannot attach
	tree := x.Pick("descendants", "i,p+,o", "u+,i", "i,p+,o (tracer without a seccomp filter)")
	noFilter := strings.Contains(tree, "without a seccomp filter")
	if noFilter {
		// without a filter the child's first stop is the SIGTRAP of its exec, not a SIGSTOP: the tracing options (kill
		// on the tracer's exit, follow forks) have to be armed all the same
		tree = "i,p+,o"
	}
	untraced := strings.Contains(tree, "u")
	x.Note("crash", fmt.Sprintf("tracing process killed at tracer step %d; tree %s; filter: %v", k, tree, !noFilter))
	if x.Dry() {
		return
	}
	if noFilter && k >= 12 {
		x.Outcome("n/a:the-filterless-run-has-fewer-steps")
		return
	}
	if !noFilter && k >= 36 {
		x.Outcome("n/a:one-instant-after-the-last-step-is-enough")
		return
	}
	nonce := newNonce()
	self, _ := os.Executable()
	cmd := exec.Command(self, "c16trace", fmt.Sprint(k))
	cmd.Env = append(os.Environ(), "C16_NONCE="+nonce, "C16_TREE="+tree)
	if noFilter {
		cmd.Env = append(cmd.Env, "C16_NOFILTER=1")
	}
	cmd.SysProcAttr = &syscall.SysProcAttr{Setsid: true}
	out, _ := cmd.StdoutPipe()
	cmd.Stderr = os.Stderr
	if err := cmd.Start(); err != nil {
		x.Failf("C16/harness", "%v", err)
		return
	}
	defer func() { cmd.Process.Kill(); cmd.Wait() }()
	lines := make(chan string, 64)
	go func() {
		sc := bufio.NewScanner(out)
		for sc.Scan() {
			lines <- sc.Text()
		}
		lines <- "EOF"
	}()
	// the helper announces every tracer step; the wait is bounded by progress, not by the clock: as long as steps keep
	// coming (or none has come yet: the helper is still starting on a loaded machine) the check waits; once the run has
	// announced steps and then stays quiet, the program has reached its pause and step k does not exist
	said, steps := "", 0
	for said == "" {
		quiet := 3 * time.Second
		if steps == 0 {
			quiet = 3 * horizon
		}
		select {
		case l := <-lines:
			if strings.HasPrefix(l, "STEP ") {
				steps++
			} else {
				said = l
			}
		case <-time.After(quiet):
			said = "QUIET"
		}
	}
	if said == "QUIET" && steps == 0 {
		x.Failf("C16/harness", "the tracing helper announced no step within %v", 3*horizon)
		return
	}
	phase := ""
	if strings.HasPrefix(said, "AT ") {
		phase = "/" + said[3:]
		said = "AT"
	}
	if said == "QUIET" {
		// the run has fewer steps than k: the program has built its tree and sits in pause, the tracer waits. That is the
		// crash point "while the program runs, after the last tracer step" (the only one at which a run whose tracer
		// follows no forks has descendants at all)
		phase = "/program-running-after-the-last-step"
		said = "AT"
	}
	if said != "AT" {
		syscall.Kill(cmd.Process.Pid, syscall.SIGKILL)
		cmd.Wait()
		waitUntil(horizon, func() bool { return len(scanNonce(nonce)) == 0 })
		killNonce(nonce)
		x.Outcome("step-not-reached")
		return
	}
	before := scanNonce(nonce)
	syscall.Kill(cmd.Process.Pid, syscall.SIGKILL)
	cmd.Wait()
	// a launcher child still running this binary (not yet exec'ed) is not an untrusted process
	untrusted := func() []int {
		var u []int
		for _, p := range scanNonce(nonce) {
			if exeOf(p) != self {
				u = append(u, p)
			}
		}
		return u
	}
	patience := horizon
	if untraced {
		patience = 3 * time.Second // what dies with the tracer is gone within milliseconds; what does not, never goes
	}
	gone := waitUntil(patience, func() bool { return len(untrusted()) == 0 })
	x.Distinct(fmt.Sprint("tracer", k, tree, noFilter, len(before), gone))
	x.Outcome(fmt.Sprintf("tracer-killed:alive-before=%d:gone=%v", len(before), gone))
	if !gone && untraced {
		x.Failf("C16/tracer/untraced-clone-child-survives", "tracing process killed at tracer step %d%s: the program had created children with clone(CLONE_UNTRACED); processes %v are still alive after the horizon", k, phase, untrusted())
	} else if !gone {
		x.Failf("C16/tracer/survives"+phase+map[bool]string{true: "/no-filter", false: ""}[noFilter], "tracing process killed at tracer step %d%s (seccomp filter: %v): traced processes %v are still alive after the horizon", k, phase, !noFilter, untrusted())
	}
	killNonce(nonce)
}

// c16vforkLaunch: the tracing process dies while its child has been forked (vfork path) but has not yet asked to be
// traced; the child is then released and must not go on to run the target.
func c16vforkLaunch(x *mc.X) {
	release := x.Pick("child-released", "after-the-tracer-died", "never(only-the-kill)")
	cred := x.Bool("child-switches-credentials")
	x.Note("crash", fmt.Sprintf("tracer on the vfork launch path killed between fork and the child's PTRACE_TRACEME; child %s; child switches to uid/gid 10001 first: %v", release, cred))
	if x.Dry() {
		return
	}
	nonce := newNonce()
	self, _ := os.Executable()
	pr, pw, err := os.Pipe()
	if err != nil {
		x.Failf("C16/harness", "%v", err)
		return
	}
	defer pw.Close()
	cmd := exec.Command(self, "c16vfork")
	cmd.Env = append(os.Environ(), "C16_NONCE="+nonce)
	if cred {
		cmd.Env = append(cmd.Env, "C16_CRED=1")
	}
	cmd.ExtraFiles = []*os.File{pr}
	cmd.SysProcAttr = &syscall.SysProcAttr{Setsid: true}
	cmd.Stderr = os.Stderr
	if err := cmd.Start(); err != nil {
		x.Failf("C16/harness", "%v", err)
		return
	}
	pr.Close()
	defer func() { cmd.Process.Kill(); cmd.Wait() }()
	// the forked child shows up as a child of the controller (still running this binary, parked at the gate)
	child := 0
	waitUntil(horizon, func() bool {
		for p := range childPids(cmd.Process.Pid) {
			child = p
		}
		return child != 0
	})
	if child == 0 {
		x.Failf("C16/harness", "the controller never forked")
		return
	}
	time.Sleep(20 * time.Millisecond)
	syscall.Kill(cmd.Process.Pid, syscall.SIGKILL)
	cmd.Wait()
	if release == "after-the-tracer-died" {
		pw.Write([]byte{1})
	}
	gone := waitUntil(horizon, func() bool { return !pidAlive(child) && len(scanNonce(nonce)) == 0 })
	x.Distinct(fmt.Sprint("vfork", release, cred, gone))
	x.Outcome(fmt.Sprintf("vfork-launch:gone=%v", gone))
	if !gone {
		x.Failf("C16/tracer/survives/vfork-launch"+map[bool]string{true: "+credential", false: ""}[cred], "tracer killed while its vfork child had not yet asked to be traced (child %s, credential switch %v): child %d is %s, target processes alive: %v", release, cred, child, procState(child), scanNonce(nonce))
		syscall.Kill(child, syscall.SIGKILL)
		killNonce(nonce)
	}
}

func childPids(pid int) map[int]bool {
	out := map[int]bool{}
	ents, _ := os.ReadDir(fmt.Sprintf("/proc/%d/task", pid))
	for _, e := range ents {
		b, _ := os.ReadFile(fmt.Sprintf("/proc/%d/task/%s/children", pid, e.Name()))
		for _, f := range strings.Fields(string(b)) {
			c, _ := strconv.Atoi(f)
			out[c] = true
		}
	}
	return out
}
