package main

import (
	"bufio"
	"context"
	"fmt"
	"os"
	"path/filepath"
	"strconv"
	"strings"
	"sync"
	"syscall"
	"time"

	"github.com/criyle/go-sandbox/pkg/forkexec"
	"github.com/criyle/go-sandbox/pkg/seccomp"
	"github.com/criyle/go-sandbox/pkg/seccomp/libseccomp"
	"github.com/criyle/go-sandbox/ptracer"
	"github.com/criyle/go-sandbox/runner"
	"github.com/criyle/go-sandbox/runner/ptrace"
	"verif/mc"
)

// C03 — handler verdicts are enforced: banned and killed syscalls never take effect.

const (
	vAllow = 0
	vBan   = 1
	vKill  = 2
)

var vNames = []string{"allow", "ban", "kill"}

var (
	c03filterOnce sync.Once
	c03filter     seccomp.Filter
)

// what sysrun itself needs is allowed; the operations under test are traced; everything else is killed by the filter
func c03Filter() seccomp.Filter {
	c03filterOnce.Do(func() {
		c03filter = mustFilter(
			[]string{"read", "write", "mmap", "mprotect", "munmap", "exit", "exit_group", "clone", "fork", "vfork", "wait4", "nanosleep", "getpid", "gettid", "chdir", "close", "restart_syscall"},
			[]string{"execve", "mkdirat", "unlinkat", "openat", "renameat2", "linkat", "access", "getppid"},
			libseccomp.ActionKill)
	})
	return c03filter
}

type c03op struct {
	kind string // mkdir unlink creat getpid filterkill rename link
	id   int
}

// script line and bookkeeping for one op; returns the script text
func (o c03op) script(dir string) (decl, op string) {
	t := o.script1(dir)
	i := strings.Index(t, "\n")
	return t[:i+1], t[i+1:]
}

func (o c03op) script1(dir string) string {
	p := func(s string) string { return filepath.Join(dir, fmt.Sprintf("%s%d", s, o.id)) }
	switch o.kind {
	case "mkdir":
		return fmt.Sprintf("S %s\nX 258 -100 $%d 0755\n", p("d"), o.id)
	case "unlink":
		return fmt.Sprintf("S %s\nX 263 -100 $%d 0\n", p("u"), o.id)
	case "creat":
		return fmt.Sprintf("S %s\nX 257 -100 $%d 0x41 0644\n", p("c"), o.id) // O_WRONLY|O_CREAT
	case "getpid":
		return fmt.Sprintf("S unused\nX 39\n")
	case "filterkill":
		return fmt.Sprintf("S unused\nX 102\n") // getuid: neither allowed nor traced
	}
	return ""
}

// the per-op string table index must equal op.id: every op adds exactly one string, in order

type c03result struct {
	res   runner.Result
	rets  map[int]int64 // script line → return value
	lines []int
}

// c03run runs the script under ptracer.Tracer with a scripted Handle.
func c03runTracer(script string, decide func(nr uint, path string) int, logPath string) runner.Result {
	sf, _ := os.CreateTemp(filepath.Dir(logPath), "script")
	sf.WriteString(script)
	sf.Seek(0, 0)
	defer sf.Close()
	lf, _ := os.Create(logPath)
	defer lf.Close()
	ch := &forkexec.Runner{Args: []string{probe("sysrun")}, Env: []string{}, Files: []uintptr{sf.Fd(), lf.Fd(), devnull()},
		Seccomp: c03Filter().SockFprog(), Ptrace: true, UnshareCgroupAfterSync: true}
	h := &c03handler{decide: decide}
	t := ptracer.Tracer{Handler: h, Runner: ch, Limit: bigLimit}
	ctx, cancel := context.WithTimeout(context.Background(), 20*time.Second)
	defer cancel()
	return t.Trace(ctx)
}

type c03handler struct {
	decide func(nr uint, path string) int
}

func (h *c03handler) Debug(v ...interface{}) {}
func (h *c03handler) Handle(c *ptracer.Context) ptracer.TraceAction {
	nr := c.SyscallNo()
	var path string
	switch nr {
	case 258, 263, 257: // mkdirat unlinkat openat: path in arg1
		path = c.GetString(uintptr(c.Arg1()))
	case 59:
		return ptracer.TraceAllow
	}
	switch h.decide(nr, path) {
	case vBan:
		c.SetReturnValue(-int(syscall.EACCES))
		return ptracer.TraceBan
	case vKill:
		return ptracer.TraceKill
	}
	return ptracer.TraceAllow
}

func readLog(path string) map[int]int64 {
	out := map[int]int64{}
	f, err := os.Open(path)
	if err != nil {
		return out
	}
	defer f.Close()
	sc := bufio.NewScanner(f)
	for sc.Scan() {
		fs := strings.Fields(sc.Text())
		if len(fs) == 2 {
			l, _ := strconv.Atoi(fs[0])
			v, _ := strconv.ParseInt(fs[1], 10, 64)
			out[l] = v
		}
	}
	return out
}

func init() {
	registry["C03"] = func(tier string) *mc.Spec {
		maxOps := 2
		if tier == "thorough" {
			maxOps = 3
		}
		spec := &mc.Spec{
			Level: "exploration",
			Rule: "seam A (ptracer.Tracer, scripted Handle): every program of ≤ maxOps operations over {mkdirat, unlinkat, openat(O_CREAT) (traced), getpid (allowed), getuid (neither: the filter kills)} × issuer ∈ {main, forked child, vforked child, thread, grandchild} " +
				"× every map traced-op → {allow, ban, kill} × tracee state {ordinary, %ds/%es = 0x28 (loadable by the program, refused by PTRACE_SETREGS), path strings in a write-only page (readable for the kernel, not for process_vm_readv), path strings straddling a page boundary}; seam B (runner/ptrace.Runner, scripted policy): mkdirat / unlinkat / renameat2 / linkat with every per-path verdict pair and a traced call judged by name (getppid) with every verdict, × the runner's debug switches ShowDetails × Unsafe (Unsafe softens a kill reached by name into a ban and nothing else; ShowDetails changes nothing) × Runner value fresh / reused after a run under another handler and other switches. Oracle: reference interpreter of the script (return values from the program's own log, side effects read from the file system after the run). " +
				"non-trivial: at least one traced op with a non-allow verdict or a non-main issuer; distinct = (program, issuer, verdict map, observation)",
			Bound:       map[string]any{"max_ops": maxOps},
			Assumptions: []string{"programs are sequential (a parent waits for its sub-script), so 'later operation' is well defined", "a filter kill inside a child process ends only that child; the Disallowed Syscall verdict is required only when the main thread group is killed"},
			SplitDepth:  3,
			Workers:     4,
			Horizon:     60 * time.Second,
		}
		spec.Init = func() error { devnull(); return nil }
		spec.Fini = cleanupTmp
		spec.Body = func(x *mc.X) {
			if x.Choose(2, "seam") == 0 {
				c03tracer(x, maxOps)
			} else {
				c03policy(x)
			}
		}
		return spec
	}
}

func c03tracer(x *mc.X, maxOps int) {
	kinds := []string{"mkdir", "unlink", "creat", "getpid", "filterkill"}
	issuers := []string{"main", "fork", "vfork", "thread", "grandchild"}
	issuer := issuers[x.Choose(len(issuers), "issuer")]
	n := x.Choose(maxOps+1, "nops")
	ops := make([]c03op, n)
	verd := make([]int, n)
	for i := range ops {
		ops[i] = c03op{kind: kinds[x.Choose(len(kinds), "op")], id: i}
	}
	for i := range ops {
		switch ops[i].kind {
		case "mkdir", "unlink", "creat":
			verd[i] = x.Choose(3, "verdict")
		}
	}
	var desc []string
	for i, o := range ops {
		d := o.kind
		if o.kind == "mkdir" || o.kind == "unlink" || o.kind == "creat" {
			d += "→" + vNames[verd[i]]
		}
		desc = append(desc, d)
	}
	// register state the program may set up itself: data segment selectors the CPU accepts from user code (0x28 = the user
	// data descriptor with requested privilege level 0) but PTRACE_SETREGS refuses to write back
	segs := "ordinary"
	if n > 0 {
		segs = x.Pick("tracee-state", "ordinary", "ds-es-0x28", "paths-in-a-write-only-page", "paths-straddling-a-page-boundary")
	}
	x.Note("seam", "tracer")
	x.Note("issuer", issuer)
	x.Note("program", desc)
	if x.Dry() {
		return
	}
	dir := tmpDir("c03")
	defer os.RemoveAll(dir)
	// script
	var body, decls strings.Builder
	for _, o := range ops {
		d, l := o.script(dir)
		decls.WriteString(d)
		body.WriteString(l)
		if o.kind == "unlink" {
			os.WriteFile(filepath.Join(dir, fmt.Sprintf("u%d", o.id)), nil, 0644)
		}
	}
	var script string
	switch issuer {
	case "main":
		script = body.String()
	case "fork":
		script = "F\n" + body.String() + "E\nW\n"
	case "vfork":
		script = "V\n" + body.String() + "E\nW\n"
	case "thread":
		script = "T\n" + body.String() + "E\nJ\n"
	case "grandchild":
		script = "F\nF\n" + body.String() + "E\nW\nE\nW\n"
	}
	// all strings are declared first (a sub-process has its own copy of the table); the final traced op by main
	// (mkdir <dir>/tail, always allowed) shows whether the main process got that far
	if segs == "ds-es-0x28" {
		script = "D 0x28\n" + script
	}
	if segs == "paths-in-a-write-only-page" {
		// the path strings of the traced calls lie in a mapping without read permission: the kernel reads them all the
		// same, process_vm_readv does not (the tracer has to fall back to PTRACE_PEEKDATA)
		for i := range ops {
			script = strings.ReplaceAll(script, fmt.Sprintf(" -100 $%d ", i), fmt.Sprintf(" -100 @wo$%d ", i))
		}
	}
	if segs == "paths-straddling-a-page-boundary" {
		// half of each path string lies before a page boundary, the rest behind it (both pages readable): the tracer needs
		// two reads of tracee memory for it
		for i := range ops {
			script = strings.ReplaceAll(script, fmt.Sprintf(" -100 $%d ", i), fmt.Sprintf(" -100 @stm$%d ", i))
		}
	}
	script = decls.String() + "S " + filepath.Join(dir, "tail") + "\n" + script + "X 258 -100 $" + strconv.Itoa(n) + " 0755\nQ 0\n"
	// line numbers of X ops
	lineOf := map[int]int{}
	tailLine := 0
	{
		xi := 0
		for li, l := range strings.Split(script, "\n") {
			if strings.HasPrefix(l, "X ") {
				if xi < n {
					lineOf[xi] = li + 1
				} else {
					tailLine = li + 1
				}
				xi++
			}
		}
	}
	decide := func(nr uint, path string) int {
		base := filepath.Base(path)
		if len(base) >= 2 {
			if id, err := strconv.Atoi(base[1:]); err == nil && id < n && filepath.Dir(path) == dir {
				return verd[id]
			}
		}
		return vAllow
	}
	logPath := filepath.Join(dir, "log")
	res := c03runTracer(script, decide, logPath)
	rets := readLog(logPath)

	// reference interpretation
	dead := false       // the whole run was ended
	issuerDead := false // the issuing process was ended (filter kill in a child process)
	expStatus := runner.StatusNormal
	ctx := fmt.Sprintf("issuer %s, program %v", issuer, desc)
	if segs != "ordinary" {
		ctx += ", " + segs
	}
	for i, o := range ops {
		ran := !dead && !issuerDead
		var effect func() bool
		var okRet int64
		switch o.kind {
		case "mkdir":
			p := filepath.Join(dir, fmt.Sprintf("d%d", o.id))
			effect = func() bool { _, err := os.Stat(p); return err == nil }
		case "unlink":
			p := filepath.Join(dir, fmt.Sprintf("u%d", o.id))
			effect = func() bool { _, err := os.Stat(p); return err != nil }
		case "creat":
			p := filepath.Join(dir, fmt.Sprintf("c%d", o.id))
			effect = func() bool { _, err := os.Stat(p); return err == nil }
			okRet = -1 // a descriptor number ≥ 0
		}
		ret, logged := rets[lineOf[i]]
		switch o.kind {
		case "getpid":
			if ran && (!logged || ret <= 0) {
				x.Failf("C03/tracer/allowed-syscall-disturbed", "%s: op %d getpid returned %d (logged %v)", ctx, i, ret, logged)
			}
		case "filterkill":
			if ran {
				if logged {
					x.Failf("C03/tracer/filter-kill-returned", "%s: op %d (syscall the filter kills) returned %d", ctx, i, ret)
				}
				switch {
				case issuer == "main" || issuer == "thread":
					dead = true
					expStatus = runner.StatusDisallowedSyscall
				case res.Status == runner.StatusDisallowedSyscall:
					// as the property has it: a syscall the filter kills ends the run, whichever process issued it
					dead = true
					expStatus = runner.StatusDisallowedSyscall
				default:
					// the filter killed a child process and the run went on: judged once, under its own class; the rest of
					// the program is then interpreted as it actually continued (only the issuing process is gone)
					x.Failf("C03/tracer/filter-kill-in-child-process-does-not-end-the-run", "%s: op %d is killed by the filter in a child process; the child died of SIGSYS but the run ended %s instead of Disallowed Syscall", ctx, i, statusName(res.Status))
					issuerDead = true
				}
			}
		default:
			v := verd[i]
			if !ran {
				if effect() {
					x.Failf("C03/tracer/effect-after-kill", "%s: op %d took effect although an earlier operation had ended the run/process", ctx, i)
				}
				continue
			}
			switch v {
			case vAllow:
				if !effect() {
					x.Failf("C03/tracer/allowed-op-no-effect", "%s: op %d was allowed but did not take effect (ret %d, logged %v)", ctx, i, ret, logged)
				}
				if !logged || (okRet == 0 && ret != 0) || (okRet == -1 && ret < 0) {
					x.Failf("C03/tracer/allowed-op-wrong-result", "%s: op %d was allowed but returned %d (logged %v)", ctx, i, ret, logged)
				}
			case vBan:
				if effect() {
					x.Failf("C03/tracer/banned-op-took-effect", "%s: op %d was banned but took effect", ctx, i)
				}
				if !logged || ret != -int64(syscall.EACCES) {
					x.Failf("C03/tracer/banned-op-wrong-return", "%s: op %d was banned, the program saw %d (logged %v), expected -EACCES", ctx, i, ret, logged)
				}
			case vKill:
				if effect() {
					x.Failf("C03/tracer/killed-op-took-effect", "%s: op %d was killed but took effect", ctx, i)
				}
				if logged {
					x.Failf("C03/tracer/killed-op-returned", "%s: op %d was killed but returned %d to the program", ctx, i, ret)
				}
				dead = true
				expStatus = runner.StatusDisallowedSyscall
			}
		}
	}
	// the tail operation by main runs iff the run was not ended
	_, tailErr := os.Stat(filepath.Join(dir, "tail"))
	if dead && tailErr == nil {
		x.Failf("C03/tracer/effect-after-kill", "%s: the main process continued (tail operation took effect) after the run should have ended", ctx)
	}
	if !dead && tailErr != nil {
		x.Failf("C03/tracer/main-did-not-finish", "%s: the main process did not reach its last operation (status %v %q, tail ret %v)", ctx, res.Status, res.Error, rets[tailLine])
	}
	if res.Status != expStatus {
		x.Failf(fmt.Sprintf("C03/tracer/status-%s-expected-%s", statusName(res.Status), statusName(expStatus)), "%s: status %s (%q), expected %s", ctx, statusName(res.Status), res.Error, statusName(expStatus))
	}
	nontrivial := issuer != "main"
	for i, o := range ops {
		if (o.kind == "mkdir" || o.kind == "unlink" || o.kind == "creat") && verd[i] != vAllow {
			nontrivial = true
		}
	}
	if nontrivial {
		x.Distinct(fmt.Sprint(issuer, desc, segs, res.Status, rets))
	}
	x.Outcome(fmt.Sprintf("tracer:%s:%s", issuer, statusName(res.Status)))
}

// scripted path policy for runner/ptrace
type c03pathPolicy struct {
	mu      sync.Mutex
	verdict map[string]int // path → verdict
	asked   []string
}

func (p *c03pathPolicy) act(path string) ptracer.TraceAction {
	p.mu.Lock()
	defer p.mu.Unlock()
	p.asked = append(p.asked, path)
	switch p.verdict[path] {
	case vBan:
		return ptracer.TraceBan
	case vKill:
		return ptracer.TraceKill
	}
	return ptracer.TraceAllow
}
func (p *c03pathPolicy) CheckRead(s string) ptracer.TraceAction    { return p.act(s) }
func (p *c03pathPolicy) CheckWrite(s string) ptracer.TraceAction   { return p.act(s) }
func (p *c03pathPolicy) CheckStat(s string) ptracer.TraceAction    { return p.act(s) }
func (p *c03pathPolicy) CheckSyscall(s string) ptracer.TraceAction {
	if _, ok := p.verdict["syscall:"+s]; ok {
		return p.act("syscall:" + s)
	}
	return ptracer.TraceBan
}

func c03policy(x *mc.X) {
	op := x.Pick("op", "mkdirat", "renameat2", "linkat", "unlinkat", "getppid(traced, judged by name)")
	issuer := x.Pick("issuer", "main", "fork", "thread")
	v1 := x.Choose(3, "verdict(first path)")
	v2 := 0
	two := op == "renameat2" || op == "linkat"
	if two {
		v2 = x.Choose(3, "verdict(second path)")
	}
	// the kernel and the filter look at the low 32 bits of the syscall-number register, the tracer reads all 64: with
	// garbage in the upper half the call is the same call for the kernel but has no name for the runner, which must
	// then refuse it (kill) whatever the path policy would have said
	hibits := x.Bool("garbage-in-upper-half-of-syscall-number")
	// the runner's two debug switches: ShowDetails only prints; Unsafe softens a kill verdict that was reached by NAME
	// (not by path) into a ban. Every combination must leave every other verdict as it is.
	showDetails := x.Bool("ShowDetails")
	unsafeFlag := x.Bool("Unsafe")
	byName := strings.HasPrefix(op, "getppid")
	// the Runner value is fresh, or has already served a run under another handler and other switches
	reused := x.Bool("runner-value-reused-after-a-run-with-another-handler")
	x.Note("seam", "runner/ptrace policy")
	x.Note("verdicts", fmt.Sprint(vNames[v1], "/", vNames[v2]))
	if x.Dry() {
		return
	}
	dir := tmpDir("c03p")
	defer os.RemoveAll(dir)
	src, dst := filepath.Join(dir, "src"), filepath.Join(dir, "dst")
	var line string
	switch op {
	case "mkdirat":
		line = "X 258 -100 $0 0755\n"
	case "unlinkat":
		os.WriteFile(src, []byte("x"), 0644)
		line = "X 263 -100 $0 0\n"
	case "renameat2":
		os.WriteFile(src, []byte("x"), 0644)
		line = "X 316 -100 $0 -100 $1 0\n"
	case "linkat":
		os.WriteFile(src, []byte("x"), 0644)
		line = "X 265 -100 $0 -100 $1 0\n"
	default:
		line = "X 110\n"
	}
	if hibits {
		nr := 0
		fmt.Sscanf(line, "X %d", &nr)
		line = fmt.Sprintf("X %#x%s", uint64(nr)|1<<32, line[strings.Index(line[2:], " ")+2:])
	}
	script := "S " + src + "\nS " + dst + "\n"
	switch issuer {
	case "main":
		script += line
	case "fork":
		script += "F\n" + line + "E\nW\n"
	case "thread":
		script += "T\n" + line + "E\nJ\n"
	}
	script += "S " + filepath.Join(dir, "tail") + "\nX 258 -100 $2 0755\nQ 0\n"
	pol := &c03pathPolicy{verdict: map[string]int{src: v1, dst: v2}}
	if byName {
		pol.verdict["syscall:getppid"] = v1
	}
	if showDetails {
		// the runner prints every step to the process's standard error: keep that out of the check's own output
		if nf, err := os.OpenFile("/dev/null", os.O_WRONLY, 0); err == nil {
			old := os.Stderr
			os.Stderr = nf
			defer func() { os.Stderr = old; nf.Close() }()
		}
	}
	sf, _ := os.CreateTemp(dir, "script")
	sf.WriteString(script)
	sf.Seek(0, 0)
	defer sf.Close()
	logPath := filepath.Join(dir, "log")
	lf, _ := os.Create(logPath)
	defer lf.Close()
	ctx, cancel := context.WithTimeout(context.Background(), 20*time.Second)
	defer cancel()
	var res runner.Result
	if !reused {
		res = runPtrace(ctx, []string{probe("sysrun")}, func(r *ptrace.Runner) {
			r.Files = []uintptr{sf.Fd(), lf.Fd(), devnull()}
			r.Seccomp = c03Filter()
			r.Handler = pol
			r.ShowDetails = showDetails
			r.Unsafe = unsafeFlag
		})
	} else {
		// one Runner value serves two runs: first a program that ends at once under a policy that allows everything and
		// with the opposite switches, then — handler and switches replaced — the run that is judged
		qf, _ := os.CreateTemp(dir, "quit")
		qf.WriteString("Q 0\n")
		qf.Seek(0, 0)
		defer qf.Close()
		r := &ptrace.Runner{Args: []string{probe("sysrun")}, Env: []string{"PATH=/bin"}, Files: []uintptr{qf.Fd(), devnull(), devnull()},
			Seccomp: c03Filter(), Handler: allowHandler{}, Limit: bigLimit, ShowDetails: false, Unsafe: !unsafeFlag}
		if first := r.Run(ctx); first.Status != runner.StatusNormal {
			x.Failf("C03/harness", "first run on the reused Runner ended %s %q", statusName(first.Status), first.Error)
			return
		}
		r.Files = []uintptr{sf.Fd(), lf.Fd(), devnull()}
		r.Handler = pol
		r.ShowDetails = showDetails
		r.Unsafe = unsafeFlag
		res = r.Run(ctx)
	}
	rets := readLog(logPath)
	opLine := 0
	for li, l := range strings.Split(script, "\n") {
		if strings.HasPrefix(l, "X ") && opLine == 0 {
			opLine = li + 1
		}
	}
	ret, logged := rets[opLine]
	comb := vAllow
	if v1 == vKill || v2 == vKill {
		comb = vKill
	} else if v1 == vBan || v2 == vBan {
		comb = vBan
	}
	if byName && unsafeFlag && comb == vKill {
		comb = vBan // the documented softening
	}
	if hibits {
		comb = vKill
	}
	effect := false
	switch op {
	case "mkdirat":
		_, err := os.Stat(src)
		effect = err == nil
	case "unlinkat":
		_, err := os.Stat(src)
		effect = err != nil
	case "renameat2":
		_, e1 := os.Stat(src)
		_, e2 := os.Stat(dst)
		effect = e1 != nil || e2 == nil
	case "linkat":
		_, e2 := os.Stat(dst)
		effect = e2 == nil
	default:
		// no side effect to look at: the call "took effect" when the program received a process id
		effect = logged && ret > 0
	}
	cs := fmt.Sprintf("%s by %s with verdicts %s/%s (ShowDetails %v, Unsafe %v, Runner value reused %v)", op, issuer, vNames[v1], vNames[v2], showDetails, unsafeFlag, reused)
	if hibits {
		cs += " (syscall number with garbage in the upper half of the register)"
	}
	x.Note("result", fmt.Sprintf("%s ret=%d logged=%v effect=%v asked=%v", statusName(res.Status), ret, logged, effect, len(pol.asked)))
	if comb != vAllow || issuer != "main" {
		x.Distinct(fmt.Sprint(op, issuer, v1, v2, hibits, showDetails, unsafeFlag, reused, res.Status, ret > 0, logged, effect))
	}
	x.Outcome(fmt.Sprintf("policy:%s:%s", vNames[comb], statusName(res.Status)))
	switch comb {
	case vAllow:
		if !effect || !logged || (ret != 0 && !byName) {
			x.Failf("C03/policy/allowed-op-disturbed", "%s: effect=%v ret=%d logged=%v status=%v", cs, effect, ret, logged, res.Status)
		}
		if res.Status != runner.StatusNormal {
			x.Failf("C03/policy/status", "%s: status %s", cs, statusName(res.Status))
		}
	case vBan:
		if effect {
			x.Failf("C03/policy/banned-op-took-effect", "%s: the syscall executed", cs)
		}
		if !logged || ret != -int64(syscall.EACCES) {
			x.Failf("C03/policy/banned-op-wrong-return", "%s: the program saw %d (logged %v), expected -EACCES", cs, ret, logged)
		}
		if res.Status != runner.StatusNormal {
			x.Failf("C03/policy/status", "%s: status %s", cs, statusName(res.Status))
		}
	case vKill:
		if effect {
			x.Failf("C03/policy/killed-op-took-effect", "%s: the syscall executed", cs)
		}
		if res.Status != runner.StatusDisallowedSyscall {
			x.Failf("C03/policy/kill-status", "%s: status %s, expected Disallowed Syscall", cs, statusName(res.Status))
		}
		if _, err := os.Stat(filepath.Join(dir, "tail")); err == nil {
			x.Failf("C03/policy/effect-after-kill", "%s: the program continued after the kill", cs)
		}
	}
}
