package main

import (
	"context"
	"fmt"
	"os"
	"runtime"
	"sort"
	"strconv"
	"strings"
	"sync"
	"syscall"
	"time"

	"github.com/criyle/go-sandbox/container"
	"github.com/criyle/go-sandbox/pkg/forkexec"
	"github.com/criyle/go-sandbox/pkg/mount"
	"github.com/criyle/go-sandbox/pkg/rlimit"
	"github.com/criyle/go-sandbox/pkg/unixsocket"
	"github.com/criyle/go-sandbox/runner"
	"github.com/criyle/go-sandbox/runner/ptrace"
	"github.com/criyle/go-sandbox/runner/unshare"
	"golang.org/x/sys/unix"
	"verif/mc"
)

// C12 — no residue: no processes, zombies, descriptors or goroutines left behind.
// Explicit-state search over operation histories; the state is the residue vector.

type residue struct {
	hostFds    string // multiset of descriptor classes of this process
	hostKids   string // children of this process (pids, states)
	goroutines int
	initFds    int
	initKids   string
	nonceAlive int
}

func (r residue) String() string {
	return fmt.Sprintf("host fds {%s} | host children {%s} | goroutines %d | init fds %d | init children {%s} | program processes alive %d", r.hostFds, r.hostKids, r.goroutines, r.initFds, r.initKids, r.nonceAlive)
}

func fdClasses(pid string) string {
	ents, _ := os.ReadDir("/proc/" + pid + "/fd")
	count := map[string]int{}
	for _, e := range ents {
		l, err := os.Readlink("/proc/" + pid + "/fd/" + e.Name())
		if err != nil {
			continue // the directory handle used for this listing
		}
		c := l
		if i := strings.Index(l, ":["); i >= 0 {
			c = l[:i] // socket, pipe, anon_inode classes without inode numbers
		}
		if strings.HasPrefix(l, "/proc/") && strings.HasSuffix(l, "/fd") {
			continue
		}
		count[c]++
	}
	var ks []string
	for k, v := range count {
		ks = append(ks, fmt.Sprintf("%s×%d", k, v))
	}
	sort.Strings(ks)
	return strings.Join(ks, ", ")
}

func kidsOf(pid int) string {
	var out []string
	ents, _ := os.ReadDir(fmt.Sprintf("/proc/%d/task", pid))
	for _, e := range ents {
		b, _ := os.ReadFile(fmt.Sprintf("/proc/%d/task/%s/children", pid, e.Name()))
		for _, f := range strings.Fields(string(b)) {
			c, _ := strconv.Atoi(f)
			out = append(out, fmt.Sprintf("%d(%s)", c, procState(c)))
		}
	}
	sort.Strings(out)
	return strings.Join(out, " ")
}

func takeResidue(initPid int, nonces []string) residue {
	r := residue{hostFds: fdClasses("self"), hostKids: kidsOf(os.Getpid()), goroutines: runtime.NumGoroutine()}
	if initPid > 0 {
		ents, _ := os.ReadDir(fmt.Sprintf("/proc/%d/fd", initPid))
		r.initFds = len(ents)
		r.initKids = kidsOf(initPid)
	}
	for _, n := range nonces {
		r.nonceAlive += len(scanNonce(n))
	}
	return r
}

type c12env struct {
	c       container.Environment
	initPid int
}

func c12newEnv() (*c12env, error) {
	before := map[int]bool{}
	for _, p := range childInits(os.Getpid()) {
		before[p] = true
	}
	c, err := newContainer(nil)
	if err != nil {
		return nil, err
	}
	e := &c12env{c: c}
	for _, p := range childInits(os.Getpid()) {
		if !before[p] {
			e.initPid = p
		}
	}
	return e, nil
}

// one operation of a history
type c12op struct {
	name string
	run  func(e *c12env, nonce string) string // returns a short description of what the API said
}

func c12containerRun(shape, ending string, syncAfter bool, syncFail bool) func(e *c12env, nonce string) string {
	return func(e *c12env, nonce string) string {
		pr, pw, _ := os.Pipe()
		defer pr.Close()
		then := "pause"
		switch ending {
		case "exit":
			then = "exit:3"
		case "signal":
			then = "kill:11"
		}
		p := execveParam([]string{"/probe/tree", nonce, shape, then, "1"})
		p.Files = []uintptr{devnull(), pw.Fd(), devnull()}
		p.SyncAfterExec = syncAfter
		ctx, cancel := context.WithCancel(context.Background())
		defer cancel()
		ready := make(chan struct{})
		go func() {
			b := make([]byte, 64)
			pr.SetReadDeadline(time.Now().Add(horizon))
			pr.Read(b)
			close(ready)
		}()
		p.SyncFunc = func(int) error {
			if syncFail {
				if syncAfter {
					<-ready // the program is running and has built its tree when the callback refuses
				}
				return fmt.Errorf("callback refuses")
			}
			return nil
		}
		if ending == "cancel" {
			go func() { <-ready; cancel() }()
		}
		res := e.c.Execve(ctx, p)
		pw.Close()
		return statusName(res.Status)
	}
}

func c12ops(tier string) []c12op {
	shapes := []string{"-", "p,p", "i,d,p+", "s,g,o", "i2,d+"}
	if tier == "thorough" {
		shapes = append(shapes, "p3", "d2,s+,g+", "i,i,i,o,o")
	}
	var ops []c12op
	for _, sh := range shapes {
		for _, end := range []string{"exit", "signal", "cancel"} {
			for _, sa := range []bool{false, true} {
				if tier != "thorough" && sa && end == "signal" {
					continue
				}
				name := fmt.Sprintf("container-run[%s,%s,syncafter=%v]", sh, end, sa)
				ops = append(ops, c12op{name, c12containerRun(sh, end, sa, false)})
			}
		}
	}
	ops = append(ops,
		c12op{"container-run-callback-fails[i,d,p+]", c12containerRun("i,d,p+", "exit", false, true)},
		c12op{"container-run-callback-fails[i,d,p+,syncafter]", c12containerRun("i,d,p+", "pause", true, true)},
		c12op{"container-launch-fails-before-sync", func(e *c12env, nonce string) string {
			p := execveParam([]string{"/probe/tree", nonce, "-", "exit:0"})
			p.RLimits = []rlimit.RLimit{{Res: unix.RLIMIT_NOFILE, Rlim: syscall.Rlimit{Cur: 100, Max: 10}}}
			return statusName(e.c.Execve(context.Background(), p).Status)
		}},
		c12op{"container-exec-fails-after-sync", func(e *c12env, nonce string) string {
			return statusName(e.c.Execve(context.Background(), execveParam([]string{"/probe/no-such-program", nonce})).Status)
		}},
		c12op{"container-clone-fails(bad cgroup descriptor)", func(e *c12env, nonce string) string {
			p := execveParam([]string{"/probe/tree", nonce, "-", "exit:0"})
			p.CgroupFD = devnull()
			return statusName(e.c.Execve(context.Background(), p).Status)
		}},
		c12op{"forkexec-clone-fails(bad cgroup descriptor)", func(e *c12env, nonce string) string {
			r := &forkexec.Runner{Args: []string{probe("tree"), nonce, "-", "exit:0"}, Env: []string{}, Files: stdioNull(), CgroupFd: devnull()}
			_, err := r.Start()
			return fmt.Sprint(err != nil)
		}},
		c12op{"forkexec-clone-fails+callback", func(e *c12env, nonce string) string {
			r := &forkexec.Runner{Args: []string{probe("tree"), nonce, "-", "exit:0"}, Env: []string{}, Files: stdioNull(), CgroupFd: devnull(), SyncFunc: func(int) error { return nil }}
			_, err := r.Start()
			return fmt.Sprint(err != nil)
		}},
		c12op{"forkexec-userns-idmap-refused(zero-size extent)", func(e *c12env, nonce string) string {
			r := &forkexec.Runner{Args: []string{probe("tree"), nonce, "-", "exit:0"}, Env: []string{}, Files: stdioNull(), CloneFlags: unix.CLONE_NEWUSER,
				UIDMappings: []syscall.SysProcIDMap{{ContainerID: 0, HostID: 0, Size: 0}}, GIDMappings: []syscall.SysProcIDMap{{ContainerID: 0, HostID: 0, Size: 1}}}
			_, err := r.Start()
			return fmt.Sprint(err != nil)
		}},
		c12op{"forkexec-userns-idmap-refused(overlapping gid extents)", func(e *c12env, nonce string) string {
			r := &forkexec.Runner{Args: []string{probe("tree"), nonce, "-", "exit:0"}, Env: []string{}, Files: stdioNull(), CloneFlags: unix.CLONE_NEWUSER,
				UIDMappings: []syscall.SysProcIDMap{{ContainerID: 0, HostID: 0, Size: 1}},
				GIDMappings: []syscall.SysProcIDMap{{ContainerID: 0, HostID: 0, Size: 2}, {ContainerID: 1, HostID: 5, Size: 1}}, GIDMappingsEnableSetgroups: true}
			_, err := r.Start()
			return fmt.Sprint(err != nil)
		}},
		// launches refused before the fork: a string the kernel interface cannot carry (NUL byte) in each place a string goes
		c12op{"forkexec-refused-before-fork(NUL in an argument)", func(e *c12env, nonce string) string {
			r := &forkexec.Runner{Args: []string{probe("tree"), nonce + "\x00x", "-", "exit:0"}, Env: []string{}, Files: stdioNull()}
			_, err := r.Start()
			return fmt.Sprint(err != nil)
		}},
		c12op{"forkexec-refused-before-fork(NUL in the environment, callback)", func(e *c12env, nonce string) string {
			r := &forkexec.Runner{Args: []string{probe("tree"), nonce, "-", "exit:0"}, Env: []string{"A=b\x00c"}, Files: stdioNull(), SyncFunc: func(int) error { return nil }}
			_, err := r.Start()
			return fmt.Sprint(err != nil)
		}},
		c12op{"forkexec-refused-before-fork(NUL in the work directory)", func(e *c12env, nonce string) string {
			r := &forkexec.Runner{Args: []string{probe("tree"), nonce, "-", "exit:0"}, Env: []string{}, Files: stdioNull(), WorkDir: "/tmp\x00x"}
			_, err := r.Start()
			return fmt.Sprint(err != nil)
		}},
		c12op{"forkexec-refused-before-fork(NUL in the host name)", func(e *c12env, nonce string) string {
			r := &forkexec.Runner{Args: []string{probe("tree"), nonce, "-", "exit:0"}, Env: []string{}, Files: stdioNull(), CloneFlags: unix.CLONE_NEWUTS, HostName: "h\x00h"}
			_, err := r.Start()
			return fmt.Sprint(err != nil)
		}},
		c12op{"container-refused-before-fork(NUL in the environment)", func(e *c12env, nonce string) string {
			p := execveParam([]string{"/probe/tree", nonce, "-", "exit:0"})
			p.Env = []string{"GREETING=hello\x00world"}
			return statusName(e.c.Execve(context.Background(), p).Status)
		}},
		c12op{"container-refused-before-fork(NUL in an argument)", func(e *c12env, nonce string) string {
			return statusName(e.c.Execve(context.Background(), execveParam([]string{"/probe/tree", nonce + "\x00", "-", "exit:0"})).Status)
		}},
		c12op{"namespace-runner-refused-before-fork(NUL in the environment)", func(e *c12env, nonce string) string {
			return statusName(runUnshare(context.Background(), []string{"/probe/tree", nonce, "-", "exit:0"}, func(r *unshare.Runner) { r.Env = []string{"A=b\x00c"} }).Status)
		}},
		c12op{"container-not-found", func(e *c12env, nonce string) string {
			return statusName(e.c.Execve(context.Background(), execveParam([]string{"no-such-program", nonce})).Status)
		}},
		c12op{"open-ok", func(e *c12env, nonce string) string {
			r, err := e.c.Open([]container.OpenCmd{{Path: "/w/o-" + nonce, Flag: os.O_CREATE | os.O_WRONLY, Perm: 0644}, {Path: "/w/o2-" + nonce, Flag: os.O_CREATE | os.O_RDWR, Perm: 0644}})
			for _, x := range r {
				if x.File != nil {
					x.File.Close()
				}
			}
			return fmt.Sprint(err)
		}},
		c12op{"open-mixed-failure", func(e *c12env, nonce string) string {
			r, err := e.c.Open([]container.OpenCmd{{Path: "/w/m-" + nonce, Flag: os.O_CREATE | os.O_WRONLY, Perm: 0644}, {Path: "/w/none/x", Flag: os.O_RDONLY}})
			for _, x := range r {
				if x.File != nil {
					x.File.Close()
				}
			}
			return fmt.Sprint(err)
		}},
		// a mixed batch whose request fits one message and whose reply (one error text per failing item) does not: the call
		// fails as a whole — and nobody may be left holding the files that did open (neither the init nor the host)
		c12op{"open-mixed-batch-with-an-oversized-reply(8 open, 240 fail)", func(e *c12env, nonce string) string {
			var cmds []container.OpenCmd
			for i := 0; i < 8; i++ {
				cmds = append(cmds, container.OpenCmd{Path: fmt.Sprintf("/w/ok%d-%s", i, nonce), Flag: os.O_CREATE | os.O_WRONLY, Perm: 0644})
			}
			for i := 0; i < 240; i++ {
				cmds = append(cmds, container.OpenCmd{Path: fmt.Sprintf("/w/missing-dir/%s-%d", strings.Repeat("n", 100), i), Flag: os.O_RDONLY})
			}
			fr, err := e.c.Open(cmds)
			for _, f := range fr {
				if f.File != nil {
					f.File.Close()
				}
			}
			return fmt.Sprint(err != nil)
		}},
		c12op{"open-empty", func(e *c12env, nonce string) string { _, err := e.c.Open(nil); return fmt.Sprint(err != nil) }},
		c12op{"delete-missing", func(e *c12env, nonce string) string { return fmt.Sprint(e.c.Delete("/w/none") != nil) }},
		c12op{"symlink", func(e *c12env, nonce string) string {
			_, err := e.c.Symlink([]container.SymbolicLink{{LinkPath: "/w/l-" + nonce, Target: "/w/t"}})
			return fmt.Sprint(err)
		}},
		c12op{"reset", func(e *c12env, nonce string) string { return fmt.Sprint(e.c.Reset()) }},
		c12op{"ping", func(e *c12env, nonce string) string { return fmt.Sprint(e.c.Ping()) }},
		c12op{"build+destroy-another-environment", func(e *c12env, nonce string) string {
			c, err := newContainer(nil)
			if err != nil {
				return err.Error()
			}
			c.Ping()
			return fmt.Sprint(c.Destroy())
		}},
	)
	// descriptor shortage: exactly k descriptor numbers are free while the operation runs, so that it fails at its first,
	// second, … descriptor-creating step; whatever was created up to there must be given back
	for k := 0; k <= 4; k++ {
		k := k
		ops = append(ops,
			c12op{fmt.Sprintf("socket-pair(%d free descriptor numbers)", k), func(e *c12env, nonce string) string {
				restore := fdShortage(k)
				a, b, err := unixsocket.NewSocketPair()
				restore()
				if err == nil {
					a.Close()
					b.Close()
				}
				return fmt.Sprint(err != nil)
			}},
			c12op{fmt.Sprintf("build-another-environment(%d free descriptor numbers)", k), func(e *c12env, nonce string) string {
				root := tmpDir("croot")
				b := &container.Builder{Root: root, Mounts: defaultContainerMounts()}
				restore := fdShortage(k)
				c, err := b.Build()
				restore()
				if err == nil {
					c.Destroy()
				}
				return fmt.Sprint(err != nil)
			}})
	}
	// environments whose socket fails before Destroy is called
	ops = append(ops,
		c12op{"build-fails(init exits at once)", func(e *c12env, nonce string) string {
			_, err := newContainer(func(b *container.Builder) { b.ExecFile = probe("burn") })
			return fmt.Sprint(err != nil)
		}},
		c12op{"build-fails(temporary root cannot be created)", func(e *c12env, nonce string) string {
			_, err := newContainer(func(b *container.Builder) { b.Root = "/nonexistent-" + nonce; b.TmpRoot = "r" })
			return fmt.Sprint(err != nil)
		}},
		c12op{"build-fails(configuration refused: bind source missing)", func(e *c12env, nonce string) string {
			// the init starts and answers its first ping, then cannot apply the configuration
			_, err := newContainer(func(b *container.Builder) {
				b.Mounts = append(b.Mounts, mount.Mount{Source: "/nonexistent-" + nonce, Target: "x", Flags: syscall.MS_BIND | syscall.MS_RDONLY})
			})
			return fmt.Sprint(err != nil)
		}},
		c12op{"build-fails(configuration refused: init command cannot start)", func(e *c12env, nonce string) string {
			_, err := newContainer(func(b *container.Builder) { b.InitCommand = []string{"/nonexistent-" + nonce} })
			return fmt.Sprint(err != nil)
		}},
		c12op{"build-fails(init never answers)", func(e *c12env, nonce string) string {
			_, err := newContainer(func(b *container.Builder) { b.ExecFile = probe("mute") })
			return fmt.Sprint(err != nil)
		}},
		c12op{"another-environment:init-killed,ping,destroy", func(e *c12env, nonce string) string {
			o, err := c12newEnv()
			if err != nil {
				return err.Error()
			}
			syscall.Kill(o.initPid, syscall.SIGKILL)
			perr := o.c.Ping()
			return fmt.Sprint(perr != nil, o.c.Destroy())
		}},
		c12op{"another-environment:init-killed-during-run,destroy", func(e *c12env, nonce string) string {
			o, err := c12newEnv()
			if err != nil {
				return err.Error()
			}
			p := execveParam([]string{"/probe/tree", nonce, "p,i", "pause"})
			p.SyncFunc = func(int) error {
				time.AfterFunc(20*time.Millisecond, func() { syscall.Kill(o.initPid, syscall.SIGKILL) })
				return nil
			}
			st := o.c.Execve(context.Background(), p).Status
			return fmt.Sprint(statusName(st), o.c.Destroy())
		}},
	)
	// Destroy while the reply of an Open (it carries descriptors) is already queued for a caller that has not taken it yet:
	// the caller is held right before its wait, the reply is let in, Destroy closes the socket, the caller is let go. Which
	// of its two ready cases the caller's select takes is Go's choice and not ours, so the scene is played twelve times
	ops = append(ops, c12op{"another-environment:destroy-while-an-open-reply-is-queued(x12)", func(e *c12env, nonce string) string {
		defer func() { container.VerifHook = nil }()
		for rep := 0; rep < 12; rep++ {
			var mu sync.Mutex
			armed := true
			parked := make(chan struct{}, 1)
			release := make(chan struct{})
			replyIn := make(chan struct{}, 1)
			container.VerifHook = func(id, arg int) {
				switch id {
				case container.VPHostCallerRecv:
					mu.Lock()
					a := armed
					armed = false
					mu.Unlock()
					if a {
						parked <- struct{}{}
						<-release
					}
				case container.VPHostRecv:
					select {
					case replyIn <- struct{}{}:
					default:
					}
				}
			}
			mu.Lock()
			armed = false // Build's own exchange passes
			mu.Unlock()
			o, err := newContainer(nil)
			if err != nil {
				return err.Error()
			}
			for len(replyIn) > 0 {
				<-replyIn
			}
			mu.Lock()
			armed = true
			mu.Unlock()
			callDone := make(chan struct{})
			go func() {
				defer close(callDone)
				fs, _ := o.Open([]container.OpenCmd{{Path: "/w/q1", Flag: os.O_CREATE | os.O_WRONLY, Perm: 0644}, {Path: "/w/q2", Flag: os.O_CREATE | os.O_WRONLY, Perm: 0644}})
				for _, f := range fs {
					if f.File != nil {
						f.File.Close()
					}
				}
			}()
			select {
			case <-parked:
			case <-time.After(horizon):
				close(release)
				o.Destroy()
				return "caller did not reach its wait"
			}
			select {
			case <-replyIn:
			case <-time.After(horizon):
			}
			time.Sleep(20 * time.Millisecond) // the pump queues the reply right after it announced it
			destroyed := make(chan struct{})
			go func() { o.Destroy(); close(destroyed) }()
			time.Sleep(30 * time.Millisecond) // Destroy closes the socket first (it then waits for the call to end)
			close(release)
			<-callDone
			<-destroyed
		}
		return "done"
	}})
	// the other two runners
	for _, sh := range []string{"-", "p,i", "i2,p+"} {
		for _, end := range []string{"exit", "signal", "cancel"} {
			sh, end := sh, end
			ops = append(ops, c12op{fmt.Sprintf("ptrace-run[%s,%s]", sh, end), func(e *c12env, nonce string) string { return c12runnerRun("ptrace", sh, end, nonce) }})
		}
	}
	for _, sh := range []string{"-", "s,g,d", "i,o,d+"} {
		for _, end := range []string{"exit", "cancel"} {
			sh, end := sh, end
			ops = append(ops, c12op{fmt.Sprintf("unshare-run[%s,%s]", sh, end), func(e *c12env, nonce string) string { return c12runnerRun("unshare", sh, end, nonce) }})
		}
	}
	ops = append(ops,
		c12op{"ptrace-launch-fails", func(e *c12env, nonce string) string {
			return statusName(runPtrace(context.Background(), []string{probe("no-such-program"), nonce}, nil).Status)
		}},
		c12op{"unshare-launch-fails", func(e *c12env, nonce string) string {
			return statusName(runUnshare(context.Background(), []string{"/probe/no-such-program", nonce}, nil).Status)
		}},
		c12op{"ptrace-callback-fails", func(e *c12env, nonce string) string {
			return statusName(runPtrace(context.Background(), []string{probe("tree"), nonce, "-", "exit:0"}, func(r *ptrace.Runner) { r.SyncFunc = func(int) error { return fmt.Errorf("no") } }).Status)
		}},
	)
	return ops
}

func c12runnerRun(which, shape, ending, nonce string) string {
	pr, pw, _ := os.Pipe()
	defer pr.Close()
	then := "pause"
	switch ending {
	case "exit":
		then = "exit:3"
	case "signal":
		then = "kill:11"
	}
	ctx, cancel := context.WithCancel(context.Background())
	defer cancel()
	if ending == "cancel" {
		go func() {
			b := make([]byte, 64)
			pr.SetReadDeadline(time.Now().Add(horizon))
			pr.Read(b)
			cancel()
		}()
	}
	var res runner.Result
	if which == "ptrace" {
		res = runPtrace(ctx, []string{probe("tree"), nonce, shape, then, "1"}, func(r *ptrace.Runner) { r.Files = []uintptr{devnull(), pw.Fd(), devnull()} })
	} else {
		res = runUnshare(ctx, []string{"/probe/tree", nonce, shape, then, "1"}, func(r *unshare.Runner) { r.Files = []uintptr{devnull(), pw.Fd(), devnull()} })
	}
	pw.Close()
	return statusName(res.Status)
}

func init() {
	registry["C12"] = func(tier string) *mc.Spec {
		ops := c12ops(tier)
		depth := 1
		if tier == "thorough" {
			depth = 2
		}
		spec := &mc.Spec{
			Level: "exploration",
			Rule: "explicit-state search over operation histories on one live environment plus the two other runners: operations = container runs of process trees (shapes with plain, signal-ignoring, double-forked, setsid, setpgid, outliving children, depth ≤ 3) ending by exit / fatal signal / cancellation with sync before / after exec, failing callbacks (also after the tree was built), launches failing before and after sync, open ok / mixed / empty, delete, symlink, reset, ping, build+destroy of a second environment, environments whose socket fails before Destroy (Build with an init that exits at once / never answers / with a temporary root that cannot be created; init killed while idle or during a run, then Destroy), ptrace and namespace runs of trees with the same endings and failing launches. " +
				"After every operation the residue vector (descriptor classes, children and goroutines of this process; descriptors and children of the container init; live program processes) must equal the baseline taken before the first operation; histories are extended only from states not seen before (canonical state = residue vector). " +
				"non-trivial: the operation creates processes or fails; distinct = (history, residue vectors)",
			Bound:       map[string]any{"history_depth": depth, "operations": len(ops)},
			Assumptions: []string{"counts settle asynchronously: a vector is compared after polling up to the horizon; only a difference that persists is a violation", "files a program leaves in the tmpfs are state, not residue (C13)"},
			SplitDepth:  2,
			Workers:     4,
			Horizon:     180 * time.Second,
		}
		spec.Init = func() error { devnull(); return nil }
		spec.Fini = cleanupTmp
		var reps []int
		for i, o := range ops {
			switch o.name {
			case "container-run[i,d,p+,cancel,syncafter=false]", "container-run[s,g,o,exit,syncafter=true]", "container-run-callback-fails[i,d,p+,syncafter]", "container-exec-fails-after-sync",
				"open-mixed-failure", "reset", "ptrace-run[i2,p+,cancel]", "unshare-run[i,o,d+,cancel]":
				reps = append(reps, i)
			}
		}
		spec.Body = func(x *mc.X) {
			// a history is a list of operation indices
			var history []int
			switch fam := x.Choose(depth+1, "family"); fam {
			case 0: // every single operation from the baseline state
				history = []int{x.Choose(len(ops), "op")}
			case 1: // long chains through all operations on one environment
				order := x.Choose(3, "chain-order")
				n := len(ops)
				for i := 0; i < n; i++ {
					switch order {
					case 0:
						history = append(history, i)
					case 1:
						history = append(history, n-1-i)
					case 2:
						history = append(history, (i*7+3)%n)
					}
				}
			default: // thorough: every operation followed by each representative
				history = []int{x.Choose(len(ops), "op"), reps[x.Choose(len(reps), "second")]}
			}
			if x.Dry() {
				return
			}
			e, err := c12newEnv()
			if err != nil {
				x.Failf("C12/harness", "%v", err)
				return
			}
			destroyed := false
			defer func() {
				if !destroyed {
					e.c.Destroy()
				}
			}()
			// warm up everything that allocates lazily (poller, first gob type exchange, first fork) before the baseline
			e.c.Ping()
			e.c.Execve(context.Background(), execveParam([]string{"/probe/burn", "exit", "0"}))
			runPtrace(context.Background(), []string{probe("burn"), "exit", "0"}, nil)
			runUnshare(context.Background(), []string{"/probe/burn", "exit", "0"}, nil)
			time.Sleep(20 * time.Millisecond)
			var nonces []string
			base := takeResidue(e.initPid, nil)
			waitUntil(2*time.Second, func() bool { b := takeResidue(e.initPid, nil); same := b == base; base = b; return same })
			hist := []string{}
			for _, idx := range history {
				op := ops[idx]
				nonce := newNonce()
				nonces = append(nonces, nonce)
				var said string
				returned := withTimeout(horizon*2, func() { said = op.run(e, nonce) })
				hist = append(hist, op.name)
				if !returned {
					x.Failf("C12/op-hangs/"+op.name, "history %v: operation did not return", hist)
					return
				}
				var now residue
				ok := waitUntil(horizon, func() bool { now = takeResidue(e.initPid, nonces); return now == base })
				x.Count(1)
				if !strings.HasPrefix(op.name, "ping") && !strings.HasPrefix(op.name, "reset") {
					x.Distinct(fmt.Sprint(hist, said, ok))
				}
				if !ok {
					what := c12diff(base, now)
					x.Failf("C12/residue/"+what+"/"+op.name, "history %v (last said %s): residue does not return to the baseline: %s\n  baseline: %s\n  now:      %s", hist, said, what, base, now)
					for _, n := range nonces {
						killNonce(n)
					}
					return
				}
			}
			if len(hist) > 4 {
				x.Note("history", fmt.Sprintf("chain of %d operations starting with %v", len(hist), hist[:3]))
			} else {
				x.Note("history", hist)
			}
			// finally: destroying the environment returns the host to the state before it was built is covered by the
			// build+destroy operation; here every history ends with a Destroy that must not hang
			if !withTimeout(horizon, func() { e.c.Destroy() }) {
				x.Failf("C12/destroy-hangs", "history %v: Destroy did not return", hist)
			}
			destroyed = true
			if e.initPid > 0 && !waitUntil(horizon, func() bool { return !pidExists(e.initPid) }) {
				x.Failf("C12/init-not-reaped", "history %v: container init %d still exists (%s) after Destroy", hist, e.initPid, procState(e.initPid))
			}
			x.Outcome(fmt.Sprintf("clean:%d-ops:%s", len(hist), hist[0][:strings.IndexAny(hist[0]+"[", "[")]))
		}
		return spec
	}
}

func c12diff(a, b residue) string {
	var d []string
	if a.hostFds != b.hostFds {
		d = append(d, "host-descriptors")
	}
	if a.hostKids != b.hostKids {
		d = append(d, "host-children")
	}
	if a.goroutines != b.goroutines {
		d = append(d, "goroutines")
	}
	if a.initFds != b.initFds {
		d = append(d, "init-descriptors")
	}
	if a.initKids != b.initKids {
		d = append(d, "init-children")
	}
	if a.nonceAlive != b.nonceAlive {
		d = append(d, "program-processes")
	}
	return strings.Join(d, "+")
}
