package main

import (
	"fmt"
	"os"
	"path/filepath"
	"strings"
	"syscall"
	"time"

	"github.com/criyle/go-sandbox/pkg/forkexec"
	"verif/mc"
)

// C17, family "program file busy because of another run's launch": run A executes its program from a descriptor
// (ExecFile). The file was written by the host while another run B was being launched, so B's not-yet-exec'ed child still
// holds a close-on-exec copy of the writing descriptor: A's first exec attempt meets ETXTBSY and the launcher retries.
// B's child is let go a few milliseconds after A's (both are held in their callbacks until then), inside the retry
// budget. A must end exactly as it ends alone (exit 7); only an exhausted retry budget ("text file busy", when B's exec
// came too late on a loaded machine) is not judged. The delay is a scheduling decision, not an oracle.
func c17execBusy(x *mc.X) {
	delay := []time.Duration{2 * time.Millisecond, 8 * time.Millisecond, 20 * time.Millisecond}[x.Choose(3, "b-released-after")]
	bKind := x.Pick("other-run", "forkexec+callback", "forkexec+callback+userns")
	x.Note("exec-busy", fmt.Sprintf("B (%s) released %v after A", bKind, delay))
	if x.Dry() {
		return
	}
	dir := tmpDir("c17busy")
	defer os.RemoveAll(dir)
	img, err := os.ReadFile(probe("burn"))
	if err != nil {
		x.Failf("C17/harness", "%v", err)
		return
	}
	runA := func(file string, sync func(int) error) string {
		rf, err := os.Open(file)
		if err != nil {
			return "harness: " + err.Error()
		}
		defer rf.Close()
		a := &forkexec.Runner{Args: []string{"burn", "exit", "7"}, Env: []string{}, Files: stdioNull(), ExecFile: rf.Fd(), SyncFunc: sync}
		pid, err := a.Start()
		if err != nil {
			return "start: " + err.Error()
		}
		var ws syscall.WaitStatus
		syscall.Wait4(pid, &ws, 0, nil)
		return fmt.Sprintf("wait %#x", uint32(ws))
	}
	// A alone
	f0 := filepath.Join(dir, "prog-alone")
	os.WriteFile(f0, img, 0755)
	alone := runA(f0, func(int) error { return nil })
	if alone != "wait 0x700" {
		x.Failf("C17/harness", "run A alone: %s", alone)
		return
	}
	// the program file of A is written while B is being launched
	f1 := filepath.Join(dir, "prog")
	wf, err := os.OpenFile(f1, os.O_CREATE|os.O_WRONLY, 0755)
	if err != nil {
		x.Failf("C17/harness", "%v", err)
		return
	}
	wf.Write(img)
	bHeld, bGo := make(chan struct{}), make(chan struct{})
	bDone := make(chan string, 1)
	b := &forkexec.Runner{Args: []string{probe("burn"), "exit", "0"}, Env: []string{}, Files: stdioNull(), SyncFunc: func(int) error { close(bHeld); <-bGo; return nil }}
	if strings.Contains(bKind, "userns") {
		b.CloneFlags = syscall.CLONE_NEWUSER
	}
	go func() {
		pid, err := b.Start()
		if err != nil {
			bDone <- "start: " + err.Error()
			return
		}
		var ws syscall.WaitStatus
		syscall.Wait4(pid, &ws, 0, nil)
		bDone <- fmt.Sprintf("wait %#x", uint32(ws))
	}()
	select {
	case <-bHeld:
	case <-time.After(horizon):
		x.Failf("C17/harness", "run B did not reach its callback")
		return
	}
	wf.Close() // the host is done writing; B's child still holds its copy until it execs
	aDone := make(chan string, 1)
	go func() {
		aDone <- runA(f1, func(int) error {
			// A's child goes on to its exec now; B's follows a little later
			time.AfterFunc(delay, func() { close(bGo) })
			return nil
		})
	}()
	var gotA, gotB string
	select {
	case gotA = <-aDone:
	case <-time.After(horizon):
		x.Failf("C17/exec-busy/run-stuck", "run A did not return")
		return
	}
	select {
	case gotB = <-bDone:
	case <-time.After(horizon):
		x.Failf("C17/exec-busy/run-stuck", "run B did not return")
		return
	}
	x.Note("results", fmt.Sprintf("A alone %s; A during B's launch %s; B %s", alone, gotA, gotB))
	x.Distinct(fmt.Sprint("busy", delay, bKind, gotA, gotB))
	switch {
	case gotA == alone:
		x.Outcome("exec-busy:as-alone")
	case strings.Contains(gotA, "text file busy"):
		// the launcher's retry budget (about 50 ms) ran out before B's child exec'ed: a limit of the mechanism on a loaded
		// machine, not what this family is after
		x.Outcome("exec-busy:not-judged(retry-budget-exhausted)")
	default:
		x.Failf("C17/exec-busy/differs-from-alone", "run A (ExecFile) whose program file was still held for writing by run B's not-yet-exec'ed child: %s; alone: %s", gotA, alone)
		x.Outcome("exec-busy:differs")
	}
	if gotB != "wait 0x0" {
		x.Failf("C17/exec-busy/other-run-disturbed", "run B ended %s", gotB)
	}
}
