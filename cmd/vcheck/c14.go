package main

import (
	"fmt"
	"net"
	"os"
	"path/filepath"
	"strings"
	"syscall"
	"time"

	"github.com/criyle/go-sandbox/container"
	"golang.org/x/sys/unix"
	"verif/mc"
)

// C14 — host file operations are index-aligned and safe against planted objects.

type c14class struct {
	name  string
	fails bool
	flag  int
	mkdir bool
	plant func(host, path string) // prepares the object at host path (container path given for reference)
	sub   string                  // path suffix below the item's own directory
}

var c14classes = []c14class{
	{"new-file", false, os.O_CREATE | os.O_WRONLY, false, nil, "f"},
	{"new-file-mkdirall", false, os.O_CREATE | os.O_WRONLY, true, nil, "deep/er/f"},
	{"missing-parent", true, os.O_CREATE | os.O_WRONLY, false, nil, "nodir/f"},
	{"existing-rdonly", false, os.O_RDONLY, false, func(h, p string) { os.WriteFile(h, []byte("data"), 0644) }, "f"},
	{"existing-wronly-trunc", false, os.O_WRONLY | os.O_TRUNC, false, func(h, p string) { os.WriteFile(h, []byte("data"), 0644) }, "f"},
	{"existing-rdwr", false, os.O_RDWR, false, func(h, p string) { os.WriteFile(h, []byte("data"), 0644) }, "f"},
	{"symlink-to-regular", true, os.O_RDONLY, false, func(h, p string) {
		os.WriteFile(h+".target", []byte("t"), 0644)
		os.Symlink(filepath.Base(p)+".target", h)
	}, "f"},
	{"symlink-to-host-file", true, os.O_WRONLY, false, func(h, p string) { os.Symlink("/probe/burn", h) }, "f"},
	{"dangling-symlink-creat", true, os.O_CREATE | os.O_WRONLY, false, func(h, p string) { os.Symlink("/w/escape-created-through-link", h) }, "f"},
	{"fifo", true, os.O_RDONLY, false, func(h, p string) { syscall.Mkfifo(h, 0666) }, "f"},
	{"fifo-wronly", true, os.O_WRONLY, false, func(h, p string) { syscall.Mkfifo(h, 0666) }, "f"},
	{"socket", true, os.O_RDWR, false, func(h, p string) {
		if l, err := net.Listen("unix", h); err == nil {
			l.(*net.UnixListener).SetUnlinkOnClose(false)
			l.Close()
		}
	}, "f"},
	{"directory", true, os.O_RDONLY, false, func(h, p string) { os.Mkdir(h, 0755) }, "f"},
	{"symlink-to-regular(O_WRONLY|O_EXCL)", true, os.O_WRONLY | os.O_EXCL, false, func(h, p string) {
		os.WriteFile(h+".target", []byte("t"), 0644)
		os.Symlink(filepath.Base(p)+".target", h)
	}, "f"},
	{"symlink-to-host-file(O_RDONLY|O_EXCL)", true, os.O_RDONLY | os.O_EXCL, false, func(h, p string) { os.Symlink("/probe/burn", h) }, "f"},
	{"fifo(O_RDONLY|O_EXCL)", true, os.O_RDONLY | os.O_EXCL, false, func(h, p string) { syscall.Mkfifo(h, 0666) }, "f"},
	{"fifo(O_RDWR|O_TRUNC)", true, os.O_RDWR | os.O_TRUNC, false, func(h, p string) { syscall.Mkfifo(h, 0666) }, "f"},
	{"existing(O_RDONLY|O_EXCL)", false, os.O_RDONLY | os.O_EXCL, false, func(h, p string) { os.WriteFile(h, []byte("data"), 0644) }, "f"},
	{"symlink-to-regular(O_RDWR|O_APPEND|O_NONBLOCK)", true, os.O_RDWR | os.O_APPEND | syscall.O_NONBLOCK, false, func(h, p string) {
		os.WriteFile(h+".target", []byte("t"), 0644)
		os.Symlink(filepath.Base(p)+".target", h)
	}, "f"},
	{"mkdirall-blocked-by-file", true, os.O_CREATE | os.O_WRONLY, true, func(h, p string) {
		// a regular file sits where a directory component is needed
		os.WriteFile(filepath.Dir(filepath.Dir(h)), []byte("in the way"), 0644)
	}, "blocker/sub/f"},
}

// flag matrix: every planted non-regular object × access mode × extra open flags — a request's flag word never makes a
// planted object acceptable (each of these requests must be refused, without blocking)
type c14kind struct {
	name  string
	plant func(h, p string)
}

var c14kinds = []c14kind{
	{"fifo", func(h, p string) { syscall.Mkfifo(h, 0666) }},
	{"directory", func(h, p string) { os.Mkdir(h, 0755) }},
	{"socket", func(h, p string) {
		if l, err := net.Listen("unix", h); err == nil {
			l.(*net.UnixListener).SetUnlinkOnClose(false)
			l.Close()
		}
	}},
	{"symlink-to-regular", func(h, p string) {
		os.WriteFile(h+".target", []byte("t"), 0644)
		os.Symlink(filepath.Base(p)+".target", h)
	}},
	{"symlink-to-host-file", func(h, p string) { os.Symlink("/probe/burn", h) }},
	{"dangling-symlink", func(h, p string) { os.Symlink("/w/escape-created-through-link", h) }},
}

var c14extras = []struct {
	name string
	bits int
}{
	{"O_NOFOLLOW", unix.O_NOFOLLOW}, {"O_NONBLOCK", unix.O_NONBLOCK}, {"O_DIRECTORY", unix.O_DIRECTORY}, {"O_PATH", unix.O_PATH},
	{"O_NOFOLLOW|O_NONBLOCK", unix.O_NOFOLLOW | unix.O_NONBLOCK}, {"O_NOFOLLOW|O_DIRECTORY", unix.O_NOFOLLOW | unix.O_DIRECTORY}, {"O_NOFOLLOW|O_PATH", unix.O_NOFOLLOW | unix.O_PATH},
	{"O_CREAT|O_NOFOLLOW", unix.O_CREAT | unix.O_NOFOLLOW}, {"O_TRUNC|O_NOFOLLOW", unix.O_TRUNC | unix.O_NOFOLLOW}, {"O_NOCTTY|O_SYNC", unix.O_NOCTTY | unix.O_SYNC},
}

var c14accmodes = []struct {
	name string
	bits int
}{{"O_RDONLY", os.O_RDONLY}, {"O_WRONLY", os.O_WRONLY}, {"O_RDWR", os.O_RDWR}}

// c14all = the batch classes followed by the generated matrix classes
var c14all, c14matrixStart = func() ([]c14class, int) {
	all := append([]c14class{}, c14classes...)
	start := len(all)
	for _, k := range c14kinds {
		for _, a := range c14accmodes {
			for _, e := range c14extras {
				all = append(all, c14class{name: fmt.Sprintf("%s(%s|%s)", k.name, a.name, e.name), fails: true, flag: a.bits | e.bits, plant: k.plant, sub: "f"})
			}
		}
	}
	return all, start
}()

// items whose path cannot even be looked at: lstat fails with something other than "does not exist"
var c14parentStart = len(c14all)

func init() {
	plantFile := func(h, p string) { os.WriteFile(filepath.Dir(h), []byte("a file where a directory is expected"), 0644) }
	plantLoop := func(h, p string) { os.Symlink("loop", filepath.Dir(h)) }
	long := strings.Repeat("n", 300)
	for _, mk := range []bool{false, true} {
		tag := map[bool]string{false: "", true: "+MkdirAll"}[mk]
		c14all = append(c14all,
			c14class{"parent-is-a-planted-file(ENOTDIR)" + tag, true, os.O_CREATE | os.O_WRONLY, mk, plantFile, "blk/f"},
			c14class{"parent-is-a-link-loop(ELOOP)" + tag, true, os.O_CREATE | os.O_WRONLY, mk, plantLoop, "loop/f"},
			c14class{"name-longer-than-255-bytes(ENAMETOOLONG)" + tag, true, os.O_CREATE | os.O_WRONLY, mk, nil, long},
			c14class{"existing-file-read-through-a-planted-file-parent(ENOTDIR)" + tag, true, os.O_RDONLY, mk, plantFile, "blk/f"},
		)
	}
}

// c14group: classes that block for the same reason share one memo entry
func c14group(c c14class) string {
	if i := strings.Index(c.name, "("); i > 0 {
		return c.name[:i]
	}
	return c.name
}

var c14pool c09env // one environment per worker, reset between batches

func c14initPid() int {
	ps := childInits(os.Getpid())
	if len(ps) == 0 {
		return 0
	}
	return ps[len(ps)-1]
}

func init() {
	registry["C14"] = func(tier string) *mc.Spec {
		maxLen := 3
		if tier == "thorough" {
			maxLen = 4
		}
		spec := &mc.Spec{
			Level: "exploration",
			Rule: "Open: every batch of length 0…maxLen over 20 item classes (new file ± MkdirAll, missing parent, existing regular file read-only / write+truncate / read-write, planted symlink to a regular file / to a host file / dangling with O_CREAT, FIFO read and write, socket, directory, MkdirAll blocked by a planted file) on a real container whose tmpfs is prepared from the host side; plus batches of 253 and 254 successes; plus batches received while descriptor 0, 1 or 2 of the host process is free (the reply's first descriptor gets that number); plus the flag matrix: every planted non-regular kind (FIFO, directory, socket, three symlink kinds) × access mode × 10 extra flag words (O_NOFOLLOW, O_NONBLOCK, O_DIRECTORY, O_PATH and combinations), each followed by an ordinary item; plus items whose path cannot be looked at (parent is a planted regular file, a link loop, a name longer than 255 bytes; with and without MkdirAll) placed before, between and after two ordinary items; " +
				"Symlink: every batch ≤ maxLen over {new, existing path, missing parent}; Delete: file, empty dir, non-empty dir, missing, planted symlink. Oracle: len(results)=len(batch); result k is an error iff item k's class must fail; a returned file k has the (dev, ino) of the object at path k seen from the host, the requested access mode and close-on-exec; the call returns within the horizon; other items and a following Ping are unaffected; nothing planted is followed. " +
				"non-trivial: the batch mixes successes and failures or contains a planted object; distinct = (batch, per-item outcome)",
			Bound:       map[string]any{"max_len": maxLen, "classes": len(c14classes), "unreachable_path_classes": 8},
			Assumptions: []string{"objects are planted through /proc/<init>/root by the harness (same effect as a previous program); device nodes and unreadable files are not in the alphabet (the init is root in its user namespace; mknod is not permitted there)"},
			SplitDepth:  2,
			Workers:     4,
			Horizon:     60 * time.Second,
		}
		spec.Init = func() error { devnull(); return nil }
		spec.Fini = func() { c14pool.drop(); cleanupTmp() }
		spec.Body = func(x *mc.X) {
			switch x.Pick("op", "open", "open-many", "symlink", "delete", "open-flag-matrix", "open-unreachable-path", "open-while-a-standard-descriptor-of-the-host-is-free") {
			case "open-while-a-standard-descriptor-of-the-host-is-free":
				// a host process started without stdin (or that closed 0, 1 or 2): the kernel hands the lowest free number to the
				// first descriptor of the reply. Number 0 is as good a descriptor as any other.
				fd := x.Choose(3, "free-descriptor")
				shape := x.Choose(3, "batch")
				if x.Dry() {
					return
				}
				failing := 0
				for i, cl := range c14classes {
					if cl.fails && cl.plant == nil {
						failing = i
						break
					}
				}
				c14freeFd = fd
				defer func() { c14freeFd = -1 }()
				c14open(x, [][]int{{0}, {0, failing, 0}, {failing, 0}}[shape])
			case "open-unreachable-path":
				k := x.Choose(len(c14all)-c14parentStart, "unreachable")
				pos := x.Choose(3, "position")
				if x.Dry() {
					return
				}
				// the item sits first, between or after two ordinary new files: refused by itself, the neighbours unaffected
				batch := []int{0, 0}
				batch = append(batch[:pos], append([]int{c14parentStart + k}, batch[pos:]...)...)
				c14open(x, batch)
			case "open-flag-matrix":
				k := x.Choose(len(c14kinds), "planted")
				a := x.Choose(len(c14accmodes), "access")
				e := x.Choose(len(c14extras), "extra-flags")
				// how the request spells the name: absolute, or relative to the init's working directory (/w)
				c14relative = x.Bool("relative-name")
				defer func() { c14relative = false }()
				if x.Dry() {
					return
				}
				// the planted item is followed by an ordinary new file: a refused item must not affect its neighbour
				c14open(x, []int{c14matrixStart + (k*len(c14accmodes)+a)*len(c14extras) + e, 0})
			case "open":
				n := x.Choose(maxLen+1, "len")
				var batch []int
				for i := 0; i < n; i++ {
					batch = append(batch, x.Choose(len(c14classes), "item"))
				}
				if x.Dry() {
					return
				}
				c14open(x, batch)
			case "open-many":
				n := []int{253, 254, 300, -250, -248}[x.Choose(5, "count")] // negative: that many items that fail (missing parent, names of ~120 bytes); -248: 240 of them plus 8 that open
				if x.Dry() {
					return
				}
				c14many(x, n)
			case "symlink":
				n := 1 + x.Choose(maxLen, "len")
				var batch []int
				for i := 0; i < n; i++ {
					batch = append(batch, x.Choose(3, "item"))
				}
				if x.Dry() {
					return
				}
				c14symlink(x, batch)
			case "delete":
				k := x.Choose(5, "target")
				if x.Dry() {
					return
				}
				c14delete(x, k)
			}
		}
		return spec
	}
}

func c14env(x *mc.X) (container.Environment, string, bool) {
	c, err := c14pool.get()
	if err != nil {
		x.Failf("C14/harness", "%v", err)
		return nil, "", false
	}
	if err := c.Reset(); err != nil {
		c14pool.drop()
		if c, err = c14pool.get(); err != nil {
			x.Failf("C14/harness", "%v", err)
			return nil, "", false
		}
	}
	pid := c14initPid()
	return c, fmt.Sprintf("/proc/%d/root", pid), true
}

// classes already seen to block the call in this worker: every further batch containing one would cost a whole horizon
var c14blocking = map[string]string{} // group → the batch first seen to block (that batch itself is still re-run)

// the next Open names its files relative to the init's working directory
var c14relative bool

// descriptor number of the host process that is free while the next Open runs (-1: none)
var c14freeFd = -1

func c14open(x *mc.X, batch []int) {
	for _, ci := range batch {
		if first, ok := c14blocking[c14group(c14all[ci])]; ok && len(batch) > 1 && first != fmt.Sprint(batch) {
			x.Outcome("skipped:contains-a-class-already-reported-to-block")
			return
		}
	}
	c, root, ok := c14env(x)
	if !ok {
		return
	}
	var names []string
	var cmds []container.OpenCmd
	for k, ci := range batch {
		cl := c14all[ci]
		names = append(names, cl.name)
		p := fmt.Sprintf("/w/i%d/%s", k, cl.sub)
		os.MkdirAll(root+fmt.Sprintf("/w/i%d", k), 0777)
		if cl.plant != nil {
			cl.plant(root+p, p)
		}
		rp := p
		if c14relative {
			rp = strings.TrimPrefix(p, "/w/")
		}
		cmds = append(cmds, container.OpenCmd{Path: rp, Flag: cl.flag, Perm: 0644, MkdirAll: cl.mkdir})
	}
	x.Note("open-batch", names)
	x.Note("relative-names", c14relative)
	var res []container.OpenCmdResult
	var err error
	if c14freeFd >= 0 {
		x.Note("free-host-descriptor", c14freeFd)
		saved, e := unix.FcntlInt(uintptr(c14freeFd), unix.F_DUPFD_CLOEXEC, 64)
		if e == nil {
			unix.Close(c14freeFd)
			// runs after the results have been closed (deferred later): the number is given back to what it was
			defer func(fd int) { unix.Dup2(saved, fd); unix.Close(saved) }(c14freeFd)
		}
	}
	returned := withTimeout(horizon, func() { res, err = c.Open(cmds) })
	ctx := fmt.Sprintf("Open batch %v", names)
	if !returned {
		x.Failf("C14/open/blocks/"+strings.Join(names, "+"), "%s did not return within the horizon (blocked on a planted object?)", ctx)
		for _, ci := range batch {
			if c14all[ci].fails {
				if _, ok := c14blocking[c14group(c14all[ci])]; !ok {
					c14blocking[c14group(c14all[ci])] = fmt.Sprint(batch)
				}
			}
		}
		c14pool.drop()
		return
	}
	defer func() {
		for _, r := range res {
			if r.File != nil {
				r.File.Close()
			}
		}
	}()
	outcome := ""
	if len(batch) == 0 {
		if err == nil {
			x.Failf("C14/open/empty-batch-accepted", "an empty batch returned %d results and no error", len(res))
		}
		x.Outcome("open:empty")
		return
	}
	if err != nil {
		x.Failf("C14/open/whole-batch-failed", "%s failed as a whole: %v (a failing item must not affect the others)", ctx, err)
		if e := envUsable(c); e != nil {
			c14pool.drop()
		}
		return
	}
	if len(res) != len(batch) {
		x.Failf("C14/open/result-count", "%s returned %d results", ctx, len(res))
		return
	}
	mixed := false
	for k, ci := range batch {
		cl := c14all[ci]
		r := res[k]
		p := cmds[k].Path
		if c14relative {
			p = "/w/" + p
		}
		if cl.fails != c14all[batch[0]].fails || cl.plant != nil {
			mixed = true
		}
		switch {
		case cl.fails && r.Err == nil:
			outcome += "!"
			tgt := ""
			if r.File != nil {
				tgt, _ = os.Readlink(fmt.Sprintf("/proc/self/fd/%d", r.File.Fd()))
			}
			x.Failf("C14/open/planted-object-opened/"+cl.name, "%s: item %d (%s) must be refused but a descriptor was returned (it refers to %q)", ctx, k, cl.name, tgt)
		case cl.fails:
			outcome += "e"
			if r.File != nil {
				x.Failf("C14/open/error-with-file", "%s: item %d has both an error and a file", ctx, k)
			}
		case r.Err != nil || r.File == nil:
			outcome += "?"
			x.Failf("C14/open/good-item-failed/"+cl.name, "%s: item %d (%s) must succeed: %v", ctx, k, cl.name, r.Err)
		default:
			outcome += "f"
			var hs unix.Stat_t
			if e := unix.Lstat(root+p, &hs); e != nil {
				x.Failf("C14/open/no-object-at-path", "%s: item %d: nothing at %s after the call: %v", ctx, k, p, e)
				break
			}
			got, _ := fdIdent(int(r.File.Fd()))
			if got.dev != uint64(hs.Dev) || got.ino != uint64(hs.Ino) || hs.Mode&unix.S_IFMT != unix.S_IFREG {
				x.Failf("C14/open/misaligned-descriptor", "%s: descriptor %d does not refer to the regular file at %s (index alignment)", ctx, k, p)
			}
			fl, _ := unix.FcntlInt(r.File.Fd(), unix.F_GETFL, 0)
			if fl&unix.O_ACCMODE != cl.flag&unix.O_ACCMODE {
				x.Failf("C14/open/wrong-mode", "%s: descriptor %d has access mode %d, requested %d", ctx, k, fl&unix.O_ACCMODE, cl.flag&unix.O_ACCMODE)
			}
			if fd, _ := unix.FcntlInt(r.File.Fd(), unix.F_GETFD, 0); fd&unix.FD_CLOEXEC == 0 {
				x.Failf("C14/open/not-cloexec", "%s: descriptor %d is not close-on-exec", ctx, k)
			}
		}
	}
	// nothing planted was followed: no file appeared through the dangling link, the host file is untouched
	if _, e := os.Lstat(root + "/w/escape-created-through-link"); e == nil {
		x.Failf("C14/open/created-through-symlink", "%s: a file was created through a planted dangling symlink", ctx)
	}
	if perr := envUsable(c); perr != nil {
		x.Failf("C14/open/protocol-affected", "%s: the following request failed: %v", ctx, perr)
		c14pool.drop()
	}
	if mixed || c14freeFd >= 0 {
		x.Distinct(fmt.Sprint(names, outcome, c14freeFd, c14relative))
	}
	x.Outcome("open:" + outcome)
}

func c14many(x *mc.X, n int) {
	c, root, ok := c14env(x)
	if !ok {
		return
	}
	_ = root
	var cmds []container.OpenCmd
	if n < 0 {
		// every item fails: the reply carries one error text per item
		n = -n
		x.Note("open-batch", fmt.Sprintf("%d items that all fail (missing parent directory, long names)", n))
		mixed := 0
		if n == 248 {
			// a mixed batch: the request fits one message, the reply (one error text per failing item) does not. Whatever
			// the call answers, every descriptor that reaches the host belongs to an item of the result
			mixed, n = 8, 240
			x.Note("open-batch", "8 new files + 240 items that fail (missing parent directory, long names)")
			for i := 0; i < mixed; i++ {
				cmds = append(cmds, container.OpenCmd{Path: fmt.Sprintf("/w/mixed-ok-%d", i), Flag: os.O_CREATE | os.O_WRONLY, Perm: 0644})
			}
		}
		for i := 0; i < n; i++ {
			cmds = append(cmds, container.OpenCmd{Path: fmt.Sprintf("/w/no-such-directory-%s/f%d", strings.Repeat("x", 90), i), Flag: os.O_RDONLY})
		}
		hostBefore := fdSet()
		var res []container.OpenCmdResult
		var err error
		returned := withTimeout(horizon, func() { res, err = c.Open(cmds) })
		defer func() {
			// evaluated after the results were closed below
			extra := 0
			for fd := range fdSet() {
				if hostBefore[fd] {
					continue
				}
				if l, _ := os.Readlink(fmt.Sprintf("/proc/self/fd/%d", fd)); strings.Contains(l, "mixed-ok-") {
					extra++
					unix.Close(fd)
				}
			}
			if returned && extra != 0 {
				x.Failf(fmt.Sprintf("C14/open-many-failing/descriptors-without-an-item/%d+%d", mixed, n), "a batch of %d opening and %d failing items answered %v with %d results; %d descriptors of container files stay open in the host that no result refers to", mixed, n, err, len(res), extra)
			}
		}()
		nerr := 0
		for _, r := range res {
			if r.Err != nil {
				nerr++
			}
			if r.File != nil {
				r.File.Close()
			}
		}
		x.Distinct(fmt.Sprint("many-failing", n, err != nil, nerr))
		x.Outcome(fmt.Sprintf("open-many-failing:%d:err=%v:item-errors=%d", n, err != nil, nerr))
		if !returned {
			x.Failf(fmt.Sprintf("C14/open-many-failing/blocks/%d", n), "a batch of %d failing opens did not return", n)
			c14pool.drop()
			return
		}
		if err == nil && nerr != n && mixed == 0 {
			x.Failf(fmt.Sprintf("C14/open-many-failing/results/%d", n), "a batch of %d failing opens returned %d item errors", n, nerr)
		}
		if perr := envUsable(c); perr != nil {
			x.Failf(fmt.Sprintf("C14/open-many-failing/environment-lost/%d", n), "a batch of %d opens that all fail (answer: %v) left the environment unusable: %v", n, err, perr)
			c14pool.drop()
		}
		return
	}
	x.Note("open-batch", fmt.Sprintf("%d new files", n))
	for i := 0; i < n; i++ {
		cmds = append(cmds, container.OpenCmd{Path: fmt.Sprintf("/w/m%d", i), Flag: os.O_CREATE | os.O_WRONLY, Perm: 0644})
	}
	var res []container.OpenCmdResult
	var err error
	returned := withTimeout(horizon, func() { res, err = c.Open(cmds) })
	nfile := 0
	for _, r := range res {
		if r.File != nil {
			nfile++
			r.File.Close()
		}
	}
	x.Distinct(fmt.Sprint("many", n, err != nil, nfile))
	x.Outcome(fmt.Sprintf("open-many:%d:err=%v:files=%d", n, err != nil, nfile))
	if !returned {
		x.Failf(fmt.Sprintf("C14/open-many/blocks/%d", n), "a batch of %d opens did not return", n)
		c14pool.drop()
		return
	}
	if err == nil && nfile != n {
		x.Failf(fmt.Sprintf("C14/open-many/lost-descriptors/%d", n), "a batch of %d opens returned no error but only %d files", n, nfile)
	}
	if perr := envUsable(c); perr != nil {
		x.Failf(fmt.Sprintf("C14/open-many/environment-lost/%d", n), "a batch of %d opens (answer: %v, %d files) left the environment unusable: %v", n, err, nfile, perr)
		c14pool.drop()
	}
}

func c14symlink(x *mc.X, batch []int) {
	c, root, ok := c14env(x)
	if !ok {
		return
	}
	kinds := []string{"new", "existing-path", "missing-parent"}
	var links []container.SymbolicLink
	var names []string
	os.WriteFile(root+"/w/taken", []byte("x"), 0644)
	for k, b := range batch {
		names = append(names, kinds[b])
		switch b {
		case 0:
			links = append(links, container.SymbolicLink{LinkPath: fmt.Sprintf("/w/l%d", k), Target: fmt.Sprintf("t%d", k)})
		case 1:
			links = append(links, container.SymbolicLink{LinkPath: "/w/taken", Target: "x"})
		case 2:
			links = append(links, container.SymbolicLink{LinkPath: fmt.Sprintf("/w/none%d/l", k), Target: "x"})
		}
	}
	x.Note("symlink-batch", names)
	var errs []error
	var err error
	if !withTimeout(horizon, func() { errs, err = c.Symlink(links) }) {
		x.Failf("C14/symlink/blocks", "Symlink batch %v did not return", names)
		c14pool.drop()
		return
	}
	if err != nil || len(errs) != len(batch) {
		x.Failf("C14/symlink/whole-batch-failed", "Symlink batch %v: %v, %d results", names, err, len(errs))
		return
	}
	out := ""
	for k, b := range batch {
		if (errs[k] != nil) != (b != 0) {
			x.Failf("C14/symlink/misaligned/"+kinds[b], "Symlink batch %v: item %d (%s) result %v", names, k, kinds[b], errs[k])
		}
		if b == 0 {
			if t, e := os.Readlink(root + links[k].LinkPath); e != nil || t != links[k].Target {
				x.Failf("C14/symlink/not-created", "Symlink batch %v: item %d: link %s → %q (%v), expected %q", names, k, links[k].LinkPath, t, e, links[k].Target)
			}
		}
		if errs[k] != nil {
			out += "e"
		} else {
			out += "l"
		}
	}
	x.Distinct(fmt.Sprint("sym", names, out))
	x.Outcome("symlink:" + out)
}

func c14delete(x *mc.X, k int) {
	c, root, ok := c14env(x)
	if !ok {
		return
	}
	kinds := []string{"file", "empty-dir", "non-empty-dir", "missing", "planted-symlink"}
	x.Note("delete", kinds[k])
	p := "/w/victim"
	wantErr := false
	switch k {
	case 0:
		os.WriteFile(root+p, []byte("x"), 0644)
	case 1:
		os.Mkdir(root+p, 0755)
	case 2:
		os.MkdirAll(root+p+"/sub", 0755)
		wantErr = true
	case 3:
		wantErr = true
	case 4:
		os.WriteFile(root+"/w/precious", []byte("keep"), 0644)
		os.Symlink("/w/precious", root+p)
	}
	var err error
	if !withTimeout(horizon, func() { err = c.Delete(p) }) {
		x.Failf("C14/delete/blocks", "Delete(%s) did not return", kinds[k])
		c14pool.drop()
		return
	}
	x.Distinct(fmt.Sprint("del", kinds[k], err != nil))
	x.Outcome(fmt.Sprintf("delete:%s:err=%v", kinds[k], err != nil))
	if (err != nil) != wantErr {
		x.Failf("C14/delete/wrong-result/"+kinds[k], "Delete of a %s returned %v", kinds[k], err)
	}
	if k == 4 {
		if b, e := os.ReadFile(root + "/w/precious"); e != nil || string(b) != "keep" {
			x.Failf("C14/delete/followed-symlink", "Delete of a planted symlink removed or altered its target (%v)", e)
		}
		if _, e := os.Lstat(root + p); e == nil {
			x.Failf("C14/delete/link-not-removed", "Delete of a planted symlink left the link in place")
		}
	}
}
