package main

import (
	"context"
	"fmt"
	"github.com/criyle/go-sandbox/pkg/rlimit"
	"golang.org/x/sys/unix"
	"os"
	"path/filepath"
	"strconv"
	"strings"
	"syscall"
	"time"

	"github.com/criyle/go-sandbox/container"
	"github.com/criyle/go-sandbox/ptracer"
	"github.com/criyle/go-sandbox/runner"
	"github.com/criyle/go-sandbox/runner/ptrace"
	"github.com/criyle/go-sandbox/runner/unshare"
	"verif/mc"
)

// C09 — every way a program can end is classified per the documented status table.

var c09terminating = func() []int {
	var s []int
	skip := map[int]bool{17: true, 18: true, 19: true, 20: true, 21: true, 22: true, 23: true, 28: true}
	for i := 1; i <= 64; i++ {
		if !skip[i] {
			s = append(s, i)
		}
	}
	return s
}()

func c09expectSignal(sig int) (runner.Status, int) {
	switch syscall.Signal(sig) {
	case syscall.SIGXCPU, syscall.SIGKILL:
		return runner.StatusTimeLimitExceeded, -1
	case syscall.SIGXFSZ:
		return runner.StatusOutputLimitExceeded, -1
	case syscall.SIGSYS:
		return runner.StatusDisallowedSyscall, -1
	}
	return runner.StatusSignalled, sig
}

func c09expectExit(code int) (runner.Status, int) {
	if code == 0 {
		return runner.StatusNormal, 0
	}
	return runner.StatusNonzeroExitStatus, code
}

var c09faults = map[string]int{"segv": 11, "fpe": 8, "ill": 4, "bus": 7, "trap": 5, "abort": 6}

type c09env struct {
	c container.Environment
}

var c09pool c09env

func (e *c09env) get() (container.Environment, error) {
	if e.c != nil {
		return e.c, nil
	}
	c, err := newContainer(nil)
	if err != nil {
		return nil, err
	}
	e.c = c
	return c, nil
}

func (e *c09env) drop() {
	if e.c != nil {
		e.c.Destroy()
		e.c = nil
	}
}

// c09run runs argv under the chosen runner set-up; onPid (optional) is told the host-side pid at the sync point.
func c09run(setup string, argv []string, onPid func(int)) (runner.Result, error) {
	ctx, cancel := context.WithTimeout(context.Background(), 30*time.Second)
	defer cancel()
	sync := func(pid int) error {
		if onPid != nil {
			onPid(pid)
		}
		return nil
	}
	// c09core: the program may write a core file (RLIMIT_CORE above zero, writable work directory)
	coreLimit := []rlimit.RLimit{{Res: unix.RLIMIT_CORE, Rlim: syscall.Rlimit{Cur: 1 << 20, Max: 1 << 20}}}
	switch setup {
	case "ptrace":
		return runPtrace(ctx, argv, func(r *ptrace.Runner) {
			r.SyncFunc = sync
			if c09core {
				d := tmpDir("c09core")
				os.Chmod(d, 0777)
				r.WorkDir, r.RLimits = d, coreLimit
			}
		}), nil
	case "unshare":
		a := append([]string{"/probe/" + argv0base(argv[0])}, argv[1:]...)
		return runUnshare(ctx, a, func(r *unshare.Runner) {
			r.SyncFunc = sync
			if c09core {
				r.RLimits = coreLimit
			}
		}), nil
	case "container", "container-syncafter":
		c, err := c09pool.get()
		if err != nil {
			return runner.Result{}, err
		}
		p := execveParam(append([]string{"/probe/" + argv0base(argv[0])}, argv[1:]...))
		p.SyncFunc = sync
		p.SyncAfterExec = setup == "container-syncafter"
		if c09core {
			p.RLimits = coreLimit
		}
		res := c.Execve(ctx, p)
		if res.Status == runner.StatusRunnerError {
			c09pool.drop() // do not let one broken environment taint later executions
		}
		return res, nil
	}
	return runner.Result{}, fmt.Errorf("unknown setup %s", setup)
}

var c09core bool

// kind "hostkill-inside-a-policy-decision" (ptrace runner): the SIGKILL reaches the program (or its forked child) while
// the tracer is deciding about one of its traced calls: the policy itself sends it and then answers allow, ban or kill.
// Whatever the tracer was about to do with that call, the ending is the one the table gives for SIGKILL (main process),
// or the main process's own ending (child).
type c09killerPolicy struct {
	verdict ptracer.TraceAction
	done    bool
}

func (p *c09killerPolicy) decide(path string) ptracer.TraceAction {
	if !p.done && strings.Contains(path, "c09-kill-me-") {
		p.done = true
		var pid int
		rest := path[strings.Index(path, "c09-kill-me-")+len("c09-kill-me-"):]
		if strings.HasPrefix(rest, "child-of-") {
			// the caller is the forked child of that process
			var parent int
			fmt.Sscanf(rest, "child-of-%d", &parent)
			b, _ := os.ReadFile(fmt.Sprintf("/proc/%d/task/%d/children", parent, parent))
			fmt.Sscan(string(b), &pid)
		} else {
			fmt.Sscanf(rest, "%d", &pid)
		}
		if pid > 0 {
			syscall.Kill(pid, syscall.SIGKILL)
			// the signal is on its way: wait until the kernel has begun to tear the task down
			waitUntil(horizon, func() bool {
				b, err := os.ReadFile(fmt.Sprintf("/proc/%d/stat", pid))
				return err != nil || strings.Contains(string(b), ") Z ") || strings.Contains(string(b), ") X ")
			})
		}
		return p.verdict
	}
	return ptracer.TraceAllow
}
func (p *c09killerPolicy) CheckRead(s string) ptracer.TraceAction  { return p.decide(s) }
func (p *c09killerPolicy) CheckWrite(s string) ptracer.TraceAction { return p.decide(s) }
func (p *c09killerPolicy) CheckStat(s string) ptracer.TraceAction  { return p.decide(s) }
func (p *c09killerPolicy) CheckSyscall(string) ptracer.TraceAction { return ptracer.TraceAllow }

func c09killInDecision(x *mc.X, setup string) {
	verdict := x.Pick("verdict", "allow", "ban", "kill")
	who := x.Pick("killed", "main", "forked-child")
	x.Note("case", fmt.Sprintf("SIGKILL of the %s while the tracer decides about its traced call; the policy then answers %s", who, verdict))
	if setup != "ptrace" {
		x.Outcome("n/a:only-the-tracer-consults-a-policy")
		return
	}
	if x.Dry() {
		return
	}
	dir := tmpDir("c09k")
	defer os.RemoveAll(dir)
	// sysrun: the path of the traced access() carries the pid of the process that issues it ($P is not available: the
	// script is written for the pid once it is known, i.e. inside the sync callback)
	sf, _ := os.Create(filepath.Join(dir, "script"))
	defer sf.Close()
	pol := &c09killerPolicy{verdict: map[string]ptracer.TraceAction{"allow": ptracer.TraceAllow, "ban": ptracer.TraceBan, "kill": ptracer.TraceKill}[verdict]}
	ctx, cancel := context.WithTimeout(context.Background(), 30*time.Second)
	defer cancel()
	res := runPtrace(ctx, []string{probe("sysrun")}, func(r *ptrace.Runner) {
		r.Files = []uintptr{sf.Fd(), devnull(), devnull()}
		r.Seccomp = c15Filter()
		r.Handler = pol
		r.SyncFunc = func(pid int) error {
			// the program has not run yet: its script is written now that its pid is known. A forked child's pid is not
			// known in advance: the child names its own pid through getpid-independent means — the policy kills the
			// process group member that is not the main process
			line := fmt.Sprintf("S %s/c09-kill-me-%d\nX 21 $0 0\n", dir, pid)
			script := line + "Q 7\n"
			if who == "forked-child" {
				script = fmt.Sprintf("S %s/c09-kill-me-child-of-%d\nF\nX 21 $0 0\nE\nW\nQ 7\n", dir, pid)
			}
			sf.WriteString(script)
			sf.Seek(0, 0)
			return nil
		}
	})
	x.Note("result", fmt.Sprintf("%s exit=%d err=%q", statusName(res.Status), res.ExitStatus, res.Error))
	x.Distinct(fmt.Sprint("kd", verdict, who, res.Status, res.ExitStatus))
	x.Outcome("kill-in-decision:" + statusName(res.Status))
	expS, expE := runner.StatusTimeLimitExceeded, 9
	if who == "forked-child" {
		expS, expE = runner.StatusNonzeroExitStatus, 7
		if verdict == "kill" {
			// a kill verdict about a call of a live process ends the run; about a process that is already gone either the
			// main process's own ending or Disallowed Syscall is a truthful report
			if res.Status == runner.StatusDisallowedSyscall {
				return
			}
		}
	}
	if res.Status != expS || res.ExitStatus != expE {
		x.Failf(fmt.Sprintf("C09/ptrace/kill-inside-decision(%s,%s)-status-%s-expected-%s", who, verdict, statusName(res.Status), statusName(expS)),
			"SIGKILL of the %s while the tracer decided about its call (policy answer %s): status %s exit value %d error %q, the table says %s / %d", who, verdict, statusName(res.Status), res.ExitStatus, res.Error, statusName(expS), expE)
	}
}

// signals whose default action also writes a core file
var c09coreSignals = []int{3, 4, 5, 6, 7, 8, 11, 24, 25, 31}

// c09cancelled runs a pausing program in the pooled container and cancels the call once the program is running.
func c09cancelled(setup string) (runner.Result, error) {
	c, err := c09pool.get()
	if err != nil {
		return runner.Result{}, err
	}
	ctx, cancel := context.WithCancel(context.Background())
	defer cancel()
	p := execveParam([]string{"/probe/burn", "pause"})
	p.SyncAfterExec = setup == "container-syncafter"
	p.SyncFunc = func(pid int) error {
		time.AfterFunc(30*time.Millisecond, cancel)
		return nil
	}
	return c.Execve(ctx, p), nil
}

func argv0base(p string) string {
	if i := strings.LastIndex(p, "/"); i >= 0 {
		return p[i+1:]
	}
	return p
}

func init() {
	registry["C09"] = func(tier string) *mc.Spec {
		codes := []int{0, 1, 2, 127, 128, 255}
		if tier == "thorough" {
			codes = nil
			for i := 0; i < 256; i++ {
				codes = append(codes, i)
			}
		}
		setups := []string{"ptrace", "unshare", "container", "container-syncafter"}
		faults := []string{"segv", "fpe", "ill", "bus", "trap"} // abort() is a self-raised signal (see raise)
		whens := []string{"before", "while", "after"}
		type act struct{ a, v string }
		childActs := []act{{"exit", "0"}, {"exit", "7"}, {"raise", "11"}, {"raise", "9"}, {"raise", "31"}}
		mainActs := []act{{"exit", "0"}, {"exit", "3"}, {"raise", "6"}, {"raise", "9"}}
		if tier == "thorough" {
			childActs = append(childActs, act{"raise", "6"}, act{"raise", "15"}, act{"exit", "255"})
			mainActs = append(mainActs, act{"raise", "31"}, act{"raise", "11"})
		}
		spec := &mc.Spec{
			Level: "exploration",
			Rule: "runner set-up × {exit code, self-raised signal (raw kill, default disposition), kernel-forced fault, a core-dumping signal with a core file really written, SIGKILL from the host while running, " +
				"main action combined with a child that exits/is signalled before, while or after the main process ends, main process stopped (SIGSTOP) and continued by a child before it ends, an ordinary exit after 1..2 caller-cancelled runs in the same container}; oracle = README status table; " +
				"non-trivial: anything but exit 0; distinct = (set-up, way of ending, observed status/exit value)",
			Bound: map[string]any{"exit_codes": len(codes), "signals": c09terminating, "faults": faults, "setups": setups,
				"namespace_runner_scope": "its program is pid 1 of a pid namespace: the kernel discards default-disposition signals it raises itself, so self-raised signals are not in that runner's domain (faults, host SIGKILL and exit codes are)"},
			Assumptions: []string{"stop signals and default-ignored signals are outside the property"},
			SplitDepth:  2,
			Workers:     4,
			Horizon:     60 * time.Second,
		}
		spec.Init = func() error { devnull(); return nil }
		spec.Fini = func() { c09pool.drop(); cleanupTmp() }
		spec.Body = func(x *mc.X) {
			setup := x.Pick("setup", setups...)
			kind := x.Pick("kind", "exit", "raise", "fault", "hostkill", "child", "stopcont", "after-cancelled-runs", "raise-with-core-file", "hostkill-inside-a-policy-decision")
			c09core = false
			if kind == "hostkill-inside-a-policy-decision" {
				c09killInDecision(x, setup)
				return
			}
			var argv []string
			var expS runner.Status
			expE := -1
			var desc string
			var onPid func(int)
			cancelledBefore := 0
			switch kind {
			case "after-cancelled-runs":
				// history: the same environment first serves 1..2 runs that the caller cancels, then an ordinary program
				cancelledBefore = 1 + x.Choose(2, "cancelled-runs")
				c := []int{0, 3}[x.Choose(2, "code")]
				argv = []string{probe("burn"), "exit", strconv.Itoa(c)}
				expS, expE = c09expectExit(c)
				desc = fmt.Sprintf("exit %d after %d cancelled run(s) in the same environment", c, cancelledBefore)
				if setup != "container" && setup != "container-syncafter" {
					x.Outcome("n/a:runner-keeps-no-environment")
					return
				}
			case "exit":
				c := codes[x.Choose(len(codes), "code")]
				argv = []string{probe("burn"), "exit", strconv.Itoa(c)}
				expS, expE = c09expectExit(c)
				desc = fmt.Sprintf("exit %d", c)
			case "raise":
				if setup == "unshare" {
					x.Outcome("skipped:namespace-init-discards-own-signals")
					return
				}
				s := c09terminating[x.Choose(len(c09terminating), "signal")]
				argv = []string{probe("burn"), "raise", strconv.Itoa(s)}
				expS, expE = c09expectSignal(s)
				desc = fmt.Sprintf("raise %d", s)
			case "raise-with-core-file":
				// the same classification when the kernel really writes a core file (core limit above zero, writable work
				// directory): the wait status then carries the core flag
				if setup == "unshare" {
					x.Outcome("skipped:namespace-init-discards-own-signals")
					return
				}
				s := c09coreSignals[x.Choose(len(c09coreSignals), "signal")]
				argv = []string{probe("burn"), "raise", strconv.Itoa(s)}
				expS, expE = c09expectSignal(s)
				desc = fmt.Sprintf("raise %d with a core file written", s)
				c09core = true
			case "fault":
				f := faults[x.Choose(len(faults), "fault")]
				argv = []string{probe("burn"), "fault", f}
				expS, expE = c09expectSignal(c09faults[f])
				desc = "fault " + f
			case "hostkill":
				argv = []string{probe("burn"), "pause"}
				expS, expE = c09expectSignal(9)
				desc = "SIGKILL from host"
				onPid = func(pid int) {
					go func() {
						// wait until the target has been exec'ed, then kill it
						waitUntil(horizon, func() bool {
							b, _ := os.ReadFile(fmt.Sprintf("/proc/%d/cmdline", pid))
							return strings.Contains(string(b), "pause")
						})
						syscall.Kill(pid, syscall.SIGKILL)
					}()
				}
			case "stopcont":
				ma := mainActs[x.Choose(len(mainActs), "main")]
				if setup == "unshare" && ma.a == "raise" {
					x.Outcome("skipped:namespace-init-discards-own-signals")
					return
				}
				argv = []string{probe("burn"), "stopcont", ma.a, ma.v}
				n, _ := strconv.Atoi(ma.v)
				if ma.a == "exit" {
					expS, expE = c09expectExit(n)
				} else {
					expS, expE = c09expectSignal(n)
				}
				desc = fmt.Sprintf("main stops itself (SIGSTOP), is continued by a child, then %s %s", ma.a, ma.v)
			case "child":
				w := whens[x.Choose(len(whens), "when")]
				ca := childActs[x.Choose(len(childActs), "child")]
				ma := mainActs[x.Choose(len(mainActs), "main")]
				if setup == "unshare" && ma.a == "raise" {
					x.Outcome("skipped:namespace-init-discards-own-signals")
					return
				}
				argv = []string{probe("burn"), "child", w, ca.a, ca.v, ma.a, ma.v, "."}
				n, _ := strconv.Atoi(ma.v)
				if ma.a == "exit" {
					expS, expE = c09expectExit(n)
				} else {
					expS, expE = c09expectSignal(n)
				}
				desc = fmt.Sprintf("main %s %s, child %s %s %s", ma.a, ma.v, ca.a, ca.v, w)
			}
			x.Note("ending", desc)
			if kind == "hostkill" && setup == "container-syncafter" {
				// the pid given to the callback is the container init, not the program
				x.Outcome("skipped:syncafter-has-no-program-pid")
				return
			}
			if x.Dry() {
				return
			}
			for i := 0; i < cancelledBefore; i++ {
				x.OnHang("C09/"+setup+"/cancelled-run-never-returns", fmt.Sprintf("cancelled run %d of %s never returned", i+1, desc))
				cr, err := c09cancelled(setup)
				if err != nil {
					x.Failf("C09/harness", "cannot run: %v", err)
					return
				}
				if cr.Status != runner.StatusTimeLimitExceeded {
					c09pool.drop()
					x.Failf(fmt.Sprintf("C09/%s/cancelled-run-status-%s", setup, statusName(cr.Status)), "a run cancelled by its caller under %s: status %s (exit value %d, error %q), table says Time Limit Exceeded",
						setup, statusName(cr.Status), cr.ExitStatus, cr.Error)
					return
				}
			}
			if cancelledBefore > 0 {
				x.OnHang("C09/"+setup+"/run-after-cancelled-runs-never-returns", desc+": the call never returned")
			}
			res, err := c09run(setup, argv, onPid)
			if err != nil {
				x.Failf("C09/harness", "cannot run: %v", err)
				return
			}
			x.Note("result", fmt.Sprintf("%s exit=%d err=%q", statusName(res.Status), res.ExitStatus, res.Error))
			x.Outcome(fmt.Sprintf("%s", statusName(res.Status)))
			if desc != "exit 0" {
				x.Distinct(fmt.Sprint(setup, desc, res.Status, res.ExitStatus))
			}
			sigTag := ""
			if kind == "raise" || kind == "fault" {
				sigTag = "/" + desc
			}
			if res.Status == runner.StatusRunnerError && res.Error == "" {
				x.Failf("C09/"+setup+"/runner-error-without-explanation", "%s: Runner Error with empty Error", desc)
			}
			if res.Status != expS {
				x.Failf(fmt.Sprintf("C09/%s/%s%s-status-%s-expected-%s", setup, kind, sigTag, statusName(res.Status), statusName(expS)),
					"%s under %s: status %s (exit value %d, error %q), table says %s", desc, setup, statusName(res.Status), res.ExitStatus, res.Error, statusName(expS))
				return
			}
			if expE >= 0 && res.ExitStatus != expE {
				x.Failf(fmt.Sprintf("C09/%s/%s-exit-value", setup, kind), "%s under %s: exit value %d, expected %d", desc, setup, res.ExitStatus, expE)
			}
		}
		return spec
	}
}
