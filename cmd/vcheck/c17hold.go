package main

import (
	"fmt"
	"strings"
	"time"

	"verif/mc"
)

// C17, family "descriptor of another run": operation A (every launch mode, failing and refused launches, a namespace run,
// container build / execve / open, memfd + pipe collector) runs on a thread that is stopped at EVERY system-call
// boundary. In mode "held" another party of the same process opens a descriptor at each boundary — it receives the lowest
// free number, i.e. exactly the number A has just given up if there is one — and keeps it until A is over: every one of
// them must still be the file its owner opened (A closed or replaced a number it did not own otherwise: the second close
// of a double close, a dup onto a stale number). In mode "alone" nothing is opened and every close() of A's thread must
// succeed: EBADF is a close of a number A does not own, which is the same defect seen without the other party (it hits
// whoever opened a descriptor in between). Together: every placement of one foreign open relative to A's system calls.
func c17holders(x *mc.X, tier string) {
	ops := c06xOps()
	idx := make([]int, 0, len(ops))
	for i, o := range ops {
		// quick: the launches that are given up half-way, the operations that receive or create descriptors of their own,
		// and the shortage operation; thorough: every operation
		if tier == "thorough" || o.shortage || strings.Contains(o.name, "refuses") || strings.Contains(o.name, "exec-fails") || strings.Contains(o.name, "container-open") || strings.Contains(o.name, "user-namespace") {
			idx = append(idx, i)
		}
	}
	oi := idx[x.Choose(len(idx), "operation-A")]
	mode := x.Pick("other-party", "held", "alone")
	x.Note("operation-A", ops[oi].name)
	if x.Dry() {
		return
	}
	x.NeedsTime(200 * time.Second)
	x.OnHang("C17/harness", "descriptor-holder exploration of "+ops[oi].name+" did not finish")
	m := "H"
	if mode == "alone" {
		m = "N"
	}
	r, ok := c06xDrive(x, "C17", oi, m)
	if !ok {
		return
	}
	x.Note("boundaries", fmt.Sprintf("%d system-call boundaries of A, %d descriptors of another party held; A: %s", r.stops, r.held, r.aResult))
	x.Add("syscall_boundaries", int64(r.stops))
	x.Count(int64(r.stops))
	if r.stops < 10 || (m == "H" && r.held < 10) {
		x.Failf("C17/harness", "descriptor-holder exploration of %s saw only %d boundaries / %d held descriptors", ops[oi].name, r.stops, r.held)
	}
	if r.lost != "" {
		x.Failf("C17/foreign-descriptor-closed/"+ops[oi].name, "while %s ran, descriptors another party of the process had opened meanwhile were closed or replaced under it: %s", ops[oi].name, r.lost)
	}
	if len(r.strayClose) > 0 {
		x.Failf("C17/close-of-a-number-not-owned/"+ops[oi].name, "%s closed descriptor numbers it did not own (EBADF): %s — a descriptor another run opens in between is hit", ops[oi].name, strings.Join(r.strayClose, "; "))
	}
	x.Distinct(fmt.Sprint("h", ops[oi].name, mode, r.lost != "", len(r.strayClose) > 0))
	x.Outcome(fmt.Sprintf("descriptor-holder:%s:%s:intact=%v", ops[oi].name, mode, r.lost == "" && len(r.strayClose) == 0))
	_ = time.Second
}
