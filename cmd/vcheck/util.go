package main

import (
	"bufio"
	"context"
	"encoding/json"
	"fmt"
	"os"
	"path/filepath"
	"runtime"
	"strconv"
	"strings"
	"sync"
	"syscall"
	"time"

	"github.com/criyle/go-sandbox/container"
	"github.com/criyle/go-sandbox/pkg/mount"
	"github.com/criyle/go-sandbox/pkg/seccomp"
	"github.com/criyle/go-sandbox/pkg/seccomp/libseccomp"
	"github.com/criyle/go-sandbox/ptracer"
	"github.com/criyle/go-sandbox/runner"
	"github.com/criyle/go-sandbox/runner/ptrace"
	"github.com/criyle/go-sandbox/runner/unshare"
	"golang.org/x/sys/unix"
	"verif/mc"
)

const horizon = 10 * time.Second

var (
	binDirOnce sync.Once
	binDirPath string
)

// binDir is the directory of the probe programs. Programs that run under another uid must be able to reach it: when
// the machinery lives below a directory that is closed to others (e.g. a snapshot under /root), the probes are copied
// to this process's scratch directory once.
func binDir() string {
	binDirOnce.Do(func() {
		binDirPath = filepath.Join(mc.VerifDir, "bin")
		open := true
		for d := binDirPath; d != "/" && d != "."; d = filepath.Dir(d) {
			if fi, err := os.Stat(d); err != nil || fi.Mode().Perm()&0005 != 0005 {
				open = false
			}
		}
		if open {
			return
		}
		dst := filepath.Join(tmpRoot(), "probes")
		os.MkdirAll(dst, 0755)
		ents, _ := os.ReadDir(binDirPath)
		for _, e := range ents {
			if e.IsDir() || strings.HasPrefix(e.Name(), "vcheck") {
				continue
			}
			if b, err := os.ReadFile(filepath.Join(binDirPath, e.Name())); err == nil {
				os.WriteFile(filepath.Join(dst, e.Name()), b, 0755)
			}
		}
		binDirPath = dst
	})
	return binDirPath
}

func probe(name string) string { return filepath.Join(binDir(), name) }

var (
	devNullOnce sync.Once
	devNull     *os.File
)

func devnull() uintptr {
	devNullOnce.Do(func() {
		f, err := os.OpenFile("/dev/null", os.O_RDWR, 0)
		if err != nil {
			panic(err)
		}
		devNull = f
	})
	return devNull.Fd()
}

func stdioNull() []uintptr { return []uintptr{devnull(), devnull(), devnull()} }

var (
	allowAllOnce sync.Once
	allowAllF    seccomp.Filter
)

// allowAll is a filter that allows everything (default action allow).
func allowAll() seccomp.Filter {
	allowAllOnce.Do(func() {
		f, err := (&libseccomp.Builder{Default: libseccomp.ActionAllow}).Build()
		if err != nil {
			panic(err)
		}
		allowAllF = f
	})
	return allowAllF
}

func mustFilter(allow, trace []string, def libseccomp.Action) seccomp.Filter {
	f, err := (&libseccomp.Builder{Allow: allow, Trace: trace, Default: def}).Build()
	if err != nil {
		panic(err)
	}
	return f
}

var bigLimit = runner.Limit{TimeLimit: time.Hour, MemoryLimit: runner.Size(1 << 40)}

// permissive ptrace policy
type allowHandler struct{}

func (allowHandler) CheckRead(string) ptracer.TraceAction    { return ptracer.TraceAllow }
func (allowHandler) CheckWrite(string) ptracer.TraceAction   { return ptracer.TraceAllow }
func (allowHandler) CheckStat(string) ptracer.TraceAction    { return ptracer.TraceAllow }
func (allowHandler) CheckSyscall(string) ptracer.TraceAction { return ptracer.TraceAllow }

// tmpRoot returns a per-process scratch directory (removed by cleanupTmp).
var (
	tmpOnce sync.Once
	tmpBase string
)

func tmpRoot() string {
	tmpOnce.Do(func() {
		d, err := os.MkdirTemp("", fmt.Sprintf("verif-%d-", os.Getpid()))
		if err != nil {
			panic(err)
		}
		tmpBase, _ = filepath.EvalSymlinks(d)
		os.Chmod(tmpBase, 0755) // programs running under another uid must be able to reach their files
	})
	return tmpBase
}

func cleanupTmp() {
	if tmpBase != "" {
		os.RemoveAll(tmpBase)
	}
}

var tmpSeq int
var tmpMu sync.Mutex

func tmpDir(prefix string) string {
	tmpMu.Lock()
	tmpSeq++
	n := tmpSeq
	tmpMu.Unlock()
	d := filepath.Join(tmpRoot(), fmt.Sprintf("%s%d", prefix, n))
	os.MkdirAll(d, 0755)
	return d
}

// --- runner set-ups ------------------------------------------------------------------------------------------

// runPtrace runs argv under runner/ptrace with a permissive policy.
func runPtrace(ctx context.Context, argv []string, mod func(*ptrace.Runner)) runner.Result {
	r := &ptrace.Runner{
		Args:    argv,
		Env:     []string{"PATH=/bin"},
		Files:   stdioNull(),
		Seccomp: allowAll(),
		Handler: allowHandler{},
		Limit:   bigLimit,
	}
	r.ShowDetails = os.Getenv("VERIF_DEBUG") != ""
	if mod != nil {
		mod(r)
	}
	return r.Run(ctx)
}

func probeMounts() []mount.Mount {
	return mount.NewBuilder().WithBind(binDir(), "probe", true).Mounts
}

// runUnshare runs argv (a path under /probe) under runner/unshare in a pivoted root.
func runUnshare(ctx context.Context, argv []string, mod func(*unshare.Runner)) runner.Result {
	root := tmpDir("nsroot")
	defer os.Remove(root)
	mb := mount.NewBuilder().WithBind(binDir(), "probe", true).WithTmpfs("w", "").WithTmpfs("tmp", "")
	sp, err := mb.Build()
	if err != nil {
		return runner.Result{Status: runner.StatusRunnerError, Error: "harness: " + err.Error()}
	}
	r := &unshare.Runner{
		Args:    argv,
		Env:     []string{"PATH=/bin"},
		Files:   stdioNull(),
		Seccomp: allowAll(),
		Root:    root,
		Mounts:  sp,
		WorkDir: "/w",
		Limit:   bigLimit,
	}
	if mod != nil {
		mod(r)
	}
	return r.Run(ctx)
}

func defaultContainerMounts() []mount.Mount {
	return mount.NewBuilder().WithBind(binDir(), "probe", true).WithTmpfs("w", "").WithTmpfs("tmp", "").WithProc().Mounts
}

// newContainer builds a container whose init is this binary.
func newContainer(mod func(*container.Builder)) (container.Environment, error) {
	root := tmpDir("croot")
	b := &container.Builder{
		Root:   root,
		Mounts: defaultContainerMounts(),
	}
	if mod != nil {
		mod(b)
	}
	// Build gives the new init three seconds to answer its first ping: on a heavily loaded machine that deadline can pass
	// although nothing is wrong. Such a time-out says nothing about any property: build again (other errors are returned).
	var c container.Environment
	var err error
	for try := 0; try < 6; try++ {
		c, err = b.Build()
		if err == nil || !strings.Contains(err.Error(), "i/o timeout") || b.ExecFile != "" {
			break // (with a custom init the time-out is the scenario itself)
		}
		time.Sleep(time.Duration(try+1) * 500 * time.Millisecond)
	}
	return c, err
}

// envUsable tells whether the environment still answers: one request/reply round trip that, unlike Ping, carries no
// three-second deadline of the library's own (on a loaded machine that deadline can pass although nothing is wrong, and
// a Ping that times out ends the environment). nil = the container answered (it names the missing file).
func envUsable(c container.Environment) error {
	const probe = "/w/.verif-usable-probe-that-does-not-exist"
	var err error
	if !withTimeout(3*horizon, func() { err = c.Delete(probe) }) {
		return fmt.Errorf("no answer within %v", 3*horizon)
	}
	if err == nil {
		return fmt.Errorf("deleting a missing file reported success")
	}
	if !strings.Contains(err.Error(), ".verif-usable-probe") {
		return err
	}
	return nil
}

func execveParam(argv []string) container.ExecveParam {
	return container.ExecveParam{Args: argv, Env: []string{"PATH=/bin"}, Files: stdioNull()}
}

// --- misc ------------------------------------------------------------------------------------------------------

// pidAlive reports whether pid exists and is not a zombie.
func pidAlive(pid int) bool {
	b, err := os.ReadFile(fmt.Sprintf("/proc/%d/stat", pid))
	if err != nil {
		return false
	}
	s := string(b)
	i := strings.LastIndex(s, ") ")
	if i < 0 || i+2 >= len(s) {
		return false
	}
	return s[i+2] != 'Z' && s[i+2] != 'X'
}

func pidExists(pid int) bool {
	_, err := os.Stat(fmt.Sprintf("/proc/%d", pid))
	return err == nil
}

// scanNonce returns the pids of all processes whose argv contains the exact argument nonce.
func scanNonce(nonce string) []int {
	var out []int
	ents, _ := os.ReadDir("/proc")
	for _, e := range ents {
		pid, err := strconv.Atoi(e.Name())
		if err != nil {
			continue
		}
		b, err := os.ReadFile("/proc/" + e.Name() + "/cmdline")
		if err != nil {
			continue
		}
		for _, a := range strings.Split(string(b), "\x00") {
			if a == nonce {
				if pidAlive(pid) {
					out = append(out, pid)
				}
				break
			}
		}
	}
	return out
}

func killNonce(nonce string) {
	for _, p := range scanNonce(nonce) {
		syscall.Kill(p, syscall.SIGKILL)
	}
}

// waitUntil polls cond until it holds or the horizon passes.
func waitUntil(d time.Duration, cond func() bool) bool {
	end := time.Now().Add(d)
	for {
		if cond() {
			return true
		}
		if time.Now().After(end) {
			return false
		}
		time.Sleep(2 * time.Millisecond)
	}
}

// withTimeout runs f and reports whether it returned within d.
func withTimeout(d time.Duration, f func()) bool {
	done := make(chan struct{})
	go func() { f(); close(done) }()
	select {
	case <-done:
		return true
	case <-time.After(d):
		return false
	}
}

var nonceSeq int

func newNonce() string {
	tmpMu.Lock()
	nonceSeq++
	n := nonceSeq
	tmpMu.Unlock()
	return fmt.Sprintf("vnonce-%d-%d-%d", os.Getpid(), n, time.Now().UnixNano()%1000000)
}

// readJSONLine reads one JSON object line from f with a deadline.
func readJSONLine(f *os.File, d time.Duration, v any) error {
	f.SetReadDeadline(time.Now().Add(d))
	rd := bufio.NewReaderSize(f, 1<<16)
	line, err := rd.ReadBytes('\n')
	if err != nil && len(line) == 0 {
		return err
	}
	return json.Unmarshal(line, v)
}

func openFdCount() int {
	ents, _ := os.ReadDir("/proc/self/fd")
	return len(ents) - 1
}

func statusName(s runner.Status) string {
	switch s {
	case runner.StatusNormal:
		return "Normal"
	case runner.StatusInvalid:
		return "Invalid"
	}
	return s.String()
}

// mustMounts: probe directory read-only at /probe, dir read-write at /w, tmpfs at /tmp.
func mustMounts(dir string) []mount.SyscallParams {
	sp, err := mount.NewBuilder().WithBind(binDir(), "probe", true).WithBind(dir, "w", false).WithTmpfs("tmp", "").Build()
	if err != nil {
		panic(err)
	}
	return sp
}

func runtimeStack(b []byte) int { return runtime.Stack(b, false) }

// lowestFree2 returns the two lowest descriptor numbers that are free right now (what the next socketpair will get).
func lowestFree2() (int, int) {
	a, _ := syscall.Open("/dev/null", syscall.O_RDONLY|syscall.O_CLOEXEC, 0)
	b, _ := syscall.Open("/dev/null", syscall.O_RDONLY|syscall.O_CLOEXEC, 0)
	syscall.Close(a)
	syscall.Close(b)
	return a, b
}

// fdShortage lowers the soft RLIMIT_NOFILE of this process so that exactly k descriptor numbers are free below it
// (numbers in use above the new limit stay usable), and returns the function that restores the limit.
func fdShortage(k int) func() {
	var old unix.Rlimit
	unix.Prlimit(0, unix.RLIMIT_NOFILE, nil, &old)
	open := map[int]bool{}
	if d, err := os.Open("/proc/self/fd"); err == nil {
		names, _ := d.Readdirnames(-1)
		self := int(d.Fd())
		d.Close()
		for _, n := range names {
			var v int
			fmt.Sscan(n, &v)
			if v != self {
				open[v] = true
			}
		}
	}
	limit, free := 0, 0
	for free < k {
		if !open[limit] {
			free++
		}
		limit++
	}
	// trailing numbers in use do not add free ones
	for open[limit] {
		limit++
	}
	nl := unix.Rlimit{Cur: uint64(limit), Max: old.Max}
	unix.Prlimit(0, unix.RLIMIT_NOFILE, &nl, nil)
	return func() { unix.Prlimit(0, unix.RLIMIT_NOFILE, &old, nil) }
}
