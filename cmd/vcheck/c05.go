package main

import (
	"bufio"
	"context"
	"encoding/json"
	"fmt"
	"os"
	"path/filepath"
	"sort"
	"strings"
	"syscall"
	"time"

	"github.com/criyle/go-sandbox/container"
	"github.com/criyle/go-sandbox/pkg/mount"
	"github.com/criyle/go-sandbox/runner"
	"github.com/criyle/go-sandbox/runner/unshare"
	"golang.org/x/sys/unix"
	"verif/mc"
)

// C05 — file-system confinement: only configured mounts are visible; read-only means read-only.

type c05class struct {
	name     string
	kind     string // dir | file | tmpfs | proc | none
	writable bool
}

var c05classes = []c05class{
	{"bind-ro-dir", "dir", false}, {"bind-rw-dir", "dir", true}, {"bind-ro-file", "file", false}, {"bind-rw-file", "file", true},
	{"tmpfs", "tmpfs", true}, {"proc-ro", "proc", false}, {"proc-rw", "proc", true}, {"nested-bind-ro-dir", "dir", false},
	{"missing-source-filtered", "none", false}, {"bind-ro-dir-from-nosuid-noexec-mount", "dir", false}, {"hand-built-ro-bind", "dir", false},
	{"hand-built-ro-bind-file", "file", false},
	// a read-only file bind whose target lies inside a writable directory bind, where an earlier program left a symbolic
	// link of that name: either the table is refused, or the target is that read-only mount (never the program's link)
	{"bind-ro-file-onto-planted-symlink-in-rw-bind", "file", false},
	{"bind-ro-dir-onto-planted-symlink-in-rw-bind", "dir", false},
	// the source lies on a host mount with shared propagation, and once the sandbox is set up the host mounts another
	// file system below the source: the sandbox must keep seeing what was configured (the directory as it was), no new mount
	{"bind-ro-dir-from-shared-mount+host-mounts-below-it-later", "dir", false},
	// the source directory itself contains a mount (a tmpfs on src/sub): binds are recursive, so the nested mount comes
	// along — declared read-only, it must be read-only there too
	{"bind-ro-dir-whose-source-contains-a-mount", "dir", false},
	{"bind-ro-dir-whose-source-is-a-read-only-mount-and-contains-a-mount", "dir", false},
	// a read-only bind whose target path runs through a writable bind in which an earlier program planted a symbolic
	// link as an intermediate component (t/lnk -> a host directory): the table is refused or the mount is in place; in
	// no case may the launcher create anything at the link's destination on the host
	{"bind-ro-dir-below-planted-symlink-component-in-rw-bind", "dir", false},
}

type fsReport struct {
	Root       map[string]json.RawMessage            `json:"root"`
	DotDotRoot int                                   `json:"dotdot_is_root"`
	OldRoot    int                                   `json:"old_root"`
	Cwd        string                                `json:"cwd"`
	Targets    map[string]map[string]json.RawMessage `json:"targets"`
	Escapes    map[string]int                        `json:"escapes"`
}

func rawInt(m map[string]json.RawMessage, k string) int {
	var v int
	if r, ok := m[k]; ok {
		json.Unmarshal(r, &v)
		return v
	}
	return -999
}

func rawList(m map[string]json.RawMessage, k string) []string {
	var v []string
	if r, ok := m[k]; ok {
		json.Unmarshal(r, &v)
	}
	sort.Strings(v)
	return v
}

type c05entry struct {
	also   map[string]string // further mounts this entry brings along (path → ro/rw)
	class  c05class
	target string // relative target in the mount table
	path   string // absolute path inside the sandbox
	source string
}

var c05nosuidDir, c05sharedDir string

func c05setup() error {
	// a mount with nosuid,noexec,nodev to take bind sources from (this process lives in a private mount namespace)
	d := tmpDir("c05nosuid")
	if err := syscall.Mount("tmpfs", d, "tmpfs", syscall.MS_NOSUID|syscall.MS_NOEXEC|syscall.MS_NODEV, ""); err != nil {
		return fmt.Errorf("mount nosuid tmpfs: %v", err)
	}
	c05nosuidDir = d
	// a mount with shared propagation (everything else in this private namespace is private)
	sh := tmpDir("c05shared")
	if err := syscall.Mount("tmpfs", sh, "tmpfs", 0, ""); err != nil {
		return fmt.Errorf("mount shared tmpfs: %v", err)
	}
	if err := syscall.Mount("", sh, "", syscall.MS_SHARED, ""); err != nil {
		return fmt.Errorf("make shared: %v", err)
	}
	c05sharedDir = sh
	return nil
}

func mkSourceDir(p string) {
	os.MkdirAll(p, 0755)
	os.WriteFile(filepath.Join(p, "known"), []byte("known"), 0644)
	os.WriteFile(filepath.Join(p, "victim"), []byte("victim"), 0644)
	os.WriteFile(filepath.Join(p, "maskme"), []byte("host data"), 0644)
	os.MkdirAll(filepath.Join(p, "sub"), 0755)
	os.WriteFile(filepath.Join(p, "sub", "secret"), []byte("secret"), 0644)
}

func init() {
	registry["C05"] = func(tier string) *mc.Spec {
		maxLen := 2
		if tier == "thorough" {
			maxLen = 3
		}
		spec := &mc.Spec{
			Level: "exploration",
			Rule: "every mount table of ≤ maxLen entries over 18 entry classes (bind ro/rw of directories and files, tmpfs, proc ro/rw, nested target, missing source with FilterNotExist, read-only bind whose source lies on a nosuid/noexec/nodev mount, read-only binds written by hand with only MS_BIND|MS_RDONLY, read-only binds onto a symbolic link planted inside a writable bind, a read-only bind whose source lies on a host mount with shared propagation below which the host mounts another file system once the sandbox is set up) × both implementations of the mount sequence (raw in-child via the namespace runner, in-container; the container also with a symlink and with masked file/directory paths, named directly or through a configured symbolic link, and in containers without /dev/null, with file and directory masks and with a directory mask alone); plus a mask on a file below a directory whose owner / group / mode range over ids mapped and not mapped into the container (6 kinds × 3 file owners × with and without a credential generator): Build refuses, or the program finds nothing of the host there; " +
				"a probe inside reports the root listing, read-only flags and the outcome of create / mkdir / open-for-write / truncate / chmod / rename / unlink on the root and in every mount, '..' from the root, the old root, and seven escape routes to a host canary file; the host side reads /proc/<pid>/mountinfo of the sandboxed process. Oracle: reference model of the table. " +
				"non-trivial: the table is not empty; distinct = (implementation, table, observations)",
			Bound:       map[string]any{"max_entries": maxLen, "escape_routes": 7},
			Assumptions: []string{"'nothing of the host is reachable' is decided for the listed escape routes only", "mount flags beyond ro/rw are recorded, not judged"},
			SplitDepth:  2,
			Workers:     4,
			Horizon:     120 * time.Second,
		}
		spec.Init = func() error {
			devnull()
			if os.Getenv("VERIF_WORKER") == "" && len(os.Args) < 4 {
				return nil
			}
			return c05setup()
		}
		spec.Fini = func() {
			if c05nosuidDir != "" {
				syscall.Unmount(c05nosuidDir, syscall.MNT_DETACH)
			}
			cleanupTmp()
		}
		spec.Body = func(x *mc.X) {
			impl := x.Pick("implementation", "namespace-runner", "container", "container+masks", "container+masks-without-devnull", "container+masks-through-link", "container+dirmask-without-devnull", "container: masks the init can or cannot look at")
			if strings.HasPrefix(impl, "container: masks the init") {
				c05maskReach(x)
				return
			}
			n := x.Choose(maxLen+1, "entries")
			var classes []c05class
			procs := 0
			for i := 0; i < n; i++ {
				c := c05classes[x.Choose(len(c05classes), "entry")]
				if c.kind == "proc" {
					procs++
				}
				classes = append(classes, c)
			}
			if x.Dry() {
				return
			}
			if procs > 1 {
				x.Outcome("n/a:two-proc-mounts")
				return
			}
			c05run(x, impl, classes)
		}
		return spec
	}
}

func c05run(x *mc.X, impl string, classes []c05class) {
	base := tmpDir("c05")
	defer os.RemoveAll(base)
	canary := filepath.Join(base, "canary-"+newNonce())
	os.WriteFile(canary, []byte("host secret"), 0644)
	b := mount.NewBuilder().WithBind(binDir(), "probe", true).WithTmpfs("w", "")
	var entries []c05entry
	var names []string
	plantedLink := false
	var lateMounts, lateTargets []string
	var nestedTargets, nestedSources, outsideDirs []string
	// whatever happens, the launcher creates nothing at the destination of a planted link on the host
	defer func() {
		for _, o := range outsideDirs {
			if ents, _ := os.ReadDir(o); len(ents) > 0 {
				x.Failf("C05/"+impl+"/launcher-created-on-host-through-planted-link", "%s, table %v: the launcher followed the planted link and created %q in %s on the host, outside every declared source", impl, names, ents[0].Name(), o)
			}
		}
	}()
	for i, c := range classes {
		names = append(names, c.name)
		e := c05entry{class: c, target: fmt.Sprintf("t%d", i)}
		src := filepath.Join(base, fmt.Sprintf("src%d", i))
		switch c.name {
		case "bind-ro-dir", "bind-rw-dir":
			mkSourceDir(src)
			b.WithBind(src, e.target, !c.writable)
		case "bind-ro-file", "bind-rw-file":
			os.WriteFile(src, []byte("content"), 0644)
			b.WithBind(src, e.target, !c.writable)
		case "tmpfs":
			b.WithTmpfs(e.target, "")
		case "proc-ro":
			e.target = "proc"
			b.WithProc()
		case "proc-rw":
			e.target = "proc"
			b.WithProcRW(true)
		case "nested-bind-ro-dir":
			mkSourceDir(src)
			e.target = fmt.Sprintf("n%d/deep/t", i)
			b.WithBind(src, e.target, true)
		case "missing-source-filtered":
			b.WithBind(filepath.Join(base, "does-not-exist"), e.target, true)
		case "bind-ro-dir-from-nosuid-noexec-mount":
			src = filepath.Join(c05nosuidDir, fmt.Sprintf("s-%s-%d", filepath.Base(base), i))
			mkSourceDir(src)
			defer os.RemoveAll(src)
			b.WithBind(src, e.target, true)
		case "bind-ro-dir-from-shared-mount+host-mounts-below-it-later":
			src = filepath.Join(c05sharedDir, fmt.Sprintf("s-%s-%d", filepath.Base(base), i))
			mkSourceDir(src)
			defer os.RemoveAll(src)
			b.WithBind(src, e.target, true)
			lateMounts = append(lateMounts, filepath.Join(src, "sub"))
			lateTargets = append(lateTargets, "/"+e.target+"/sub")
		case "bind-ro-dir-whose-source-contains-a-mount", "bind-ro-dir-whose-source-is-a-read-only-mount-and-contains-a-mount":
			mkSourceDir(src)
			roSource := strings.Contains(e.class.name, "is-a-read-only-mount")
			if roSource {
				// the source is a mount of its own: "it is read-only already" is true of that mount, not of what is mounted below it
				if err := syscall.Mount(src, src, "", syscall.MS_BIND, ""); err != nil {
					x.Failf("C05/harness", "source mount: %v", err)
					return
				}
				defer syscall.Unmount(src, syscall.MNT_DETACH)
			}
			if err := syscall.Mount("tmpfs", filepath.Join(src, "sub"), "tmpfs", 0, ""); err != nil {
				x.Failf("C05/harness", "nested mount: %v", err)
				return
			}
			nested := filepath.Join(src, "sub")
			defer syscall.Unmount(nested, syscall.MNT_DETACH)
			if roSource {
				if err := syscall.Mount("", src, "", syscall.MS_BIND|syscall.MS_REMOUNT|syscall.MS_RDONLY, ""); err != nil {
					x.Failf("C05/harness", "source remount: %v", err)
					return
				}
			}
			os.WriteFile(filepath.Join(nested, "inner"), []byte("inner"), 0666)
			b.WithBind(src, e.target, true)
			nestedTargets = append(nestedTargets, "/"+e.target+"/sub")
			nestedSources = append(nestedSources, nested)
			e.also = map[string]string{"/" + e.target + "/sub": "ro"} // a recursive bind brings it along: part of the declared entry
		case "bind-ro-dir-below-planted-symlink-component-in-rw-bind":
			dir := src + ".dir"
			mkSourceDir(dir)
			outside := filepath.Join(base, fmt.Sprintf("outside%d", i))
			os.MkdirAll(outside, 0777)
			os.Symlink(outside, filepath.Join(dir, "lnk"))
			mkSourceDir(src)
			b.WithBind(dir, e.target, false)
			b.WithBind(src, e.target+"/lnk/ref", true)
			e.also = map[string]string{"/" + e.target: "rw"}
			e.target += "/lnk/ref"
			plantedLink = true
			outsideDirs = append(outsideDirs, outside)
		case "hand-built-ro-bind":
			mkSourceDir(src)
			b.WithMount(mount.Mount{Source: src, Target: e.target, Flags: syscall.MS_BIND | syscall.MS_RDONLY})
		case "hand-built-ro-bind-file":
			os.WriteFile(src, []byte("content"), 0644)
			b.WithMount(mount.Mount{Source: src, Target: e.target, Flags: syscall.MS_BIND | syscall.MS_RDONLY})
		case "bind-ro-file-onto-planted-symlink-in-rw-bind":
			dir := src + ".dir"
			mkSourceDir(dir)
			os.WriteFile(filepath.Join(dir, "other"), []byte("program's own file"), 0666)
			os.Symlink("other", filepath.Join(dir, "cfg"))
			os.WriteFile(src, []byte("content"), 0644)
			b.WithBind(dir, e.target, false)
			b.WithBind(src, e.target+"/cfg", true)
			e.also = map[string]string{"/" + e.target: "rw"}
			e.target += "/cfg"
			plantedLink = true
		case "bind-ro-dir-onto-planted-symlink-in-rw-bind":
			dir := src + ".dir"
			mkSourceDir(dir)
			os.MkdirAll(filepath.Join(dir, "otherdir"), 0777)
			os.Symlink("otherdir", filepath.Join(dir, "cfgd"))
			mkSourceDir(src)
			b.WithBind(dir, e.target, false)
			b.WithBind(src, e.target+"/cfgd", true)
			e.also = map[string]string{"/" + e.target: "rw"}
			e.target += "/cfgd"
			plantedLink = true
		}
		e.source = src
		e.path = "/" + e.target
		entries = append(entries, e)
	}
	b.FilterNotExist()
	x.Note("implementation", impl)
	x.Note("table", names)
	// masks (container only): a file and a directory inside the first directory bind
	var maskFile, maskDir string
	hasDevnull := impl == "container+masks" || impl == "container+masks-through-link"
	if strings.HasPrefix(impl, "container+masks") || impl == "container+dirmask-without-devnull" {
		if hasDevnull {
			b.WithBind("/dev/null", "dev/null", false) // file masks are bind mounts of the container's /dev/null
		}
		for _, e := range entries {
			if e.class.kind == "dir" && maskFile == "" && !strings.Contains(e.class.name, "host-mounts-below") && !strings.Contains(e.class.name, "contains-a-mount") && !strings.Contains(e.class.name, "planted-symlink-component") {
				maskFile, maskDir = e.path+"/maskme", e.path+"/sub"
			}
		}
		if maskFile == "" {
			x.Outcome("n/a:no-directory-to-mask")
			return
		}
	}
	argv := []string{"/probe/fsprobe", canary, "/w", "/lnk"}
	for _, e := range entries {
		argv = append(argv, e.path)
	}
	if maskFile != "" {
		argv = append(argv, maskFile, maskDir)
	}
	argv = append(argv, lateTargets...)
	argv = append(argv, nestedTargets...)
	// the host's later mounts: done when the sandbox's own mount sequence is over (container: after Build; namespace
	// runner: inside the callback), undone when the run is over
	lateDone := false
	doLate := func() {
		if lateDone {
			return
		}
		lateDone = true
		for _, p := range lateMounts {
			if err := syscall.Mount("tmpfs", p, "tmpfs", 0, ""); err != nil {
				x.Failf("C05/harness", "late host mount on %s: %v", p, err)
				continue
			}
			os.WriteFile(filepath.Join(p, "late-host-secret"), []byte("mounted by the host after the sandbox was set up"), 0666)
		}
	}
	defer func() {
		if lateDone {
			for _, p := range lateMounts {
				syscall.Unmount(p, syscall.MNT_DETACH)
			}
		}
	}()
	pr, pw, _ := os.Pipe()
	defer pr.Close()
	var mountinfo string
	sync := func(pid int) error {
		doLate()
		bts, _ := os.ReadFile(fmt.Sprintf("/proc/%d/mountinfo", pid))
		mountinfo = string(bts)
		return nil
	}
	var res runner.Result
	ctx, cancel := context.WithTimeout(context.Background(), 60*time.Second)
	defer cancel()
	outCh := make(chan []byte, 1)
	go func() {
		rd := bufio.NewReaderSize(pr, 1<<18)
		pr.SetReadDeadline(time.Now().Add(60 * time.Second))
		line, _ := rd.ReadBytes('\n')
		outCh <- line
	}()
	switch impl {
	case "namespace-runner":
		sp, err := b.Build()
		if err != nil {
			x.Failf("C05/harness", "build mounts: %v", err)
			return
		}
		res = runUnshare(ctx, argv, func(r *unshare.Runner) {
			r.Mounts = sp
			r.Files = []uintptr{devnull(), pw.Fd(), devnull()}
			r.SyncFunc = sync
		})
	default:
		c, err := newContainer(func(cb *container.Builder) {
			cb.Mounts = b.Mounts
			cb.SymbolicLinks = []container.SymbolicLink{{LinkPath: "/lnk", Target: "/w"}}
			cb.MaskPaths = []string{"/nonexistent-mask"}
			if maskFile != "" {
				cb.MaskPaths = []string{maskFile, maskDir}
			}
			if impl == "container+dirmask-without-devnull" {
				cb.MaskPaths = []string{maskDir} // a directory is masked with a tmpfs: that needs no /dev/null
			}
			if impl == "container+masks-through-link" {
				// the same two objects, named through a configured symbolic link to their directory
				cb.SymbolicLinks = append(cb.SymbolicLinks, container.SymbolicLink{LinkPath: "/mlnk", Target: filepath.Dir(maskFile)})
				cb.MaskPaths = []string{"/mlnk/maskme", "/mlnk/sub"}
			}
		})
		if err != nil && plantedLink && !strings.Contains(err.Error(), "i/o timeout") {
			pw.Close()
			x.Note("refused", err.Error())
			x.Distinct(fmt.Sprint(impl, names, "refused"))
			x.Outcome(impl + ":table-with-planted-link-refused")
			return
		}
		if err != nil {
			pw.Close()
			x.Failf("C05/container/build-failed/"+strings.Join(names, "+"), "table %v: %v", names, err)
			return
		}
		doLate()
		p := execveParam(argv)
		p.Files = []uintptr{devnull(), pw.Fd(), devnull()}
		p.SyncFunc = sync
		res = c.Execve(ctx, p)
		c.Destroy()
	}
	pw.Close()
	line := <-outCh
	if plantedLink && res.Status == runner.StatusRunnerError && strings.Contains(res.Error, "mount") {
		// the launcher refused to mount onto the planted link: acceptable (the alternative is the declared mount in place)
		x.Note("refused", res.Error)
		x.Distinct(fmt.Sprint(impl, names, "refused"))
		x.Outcome(impl + ":table-with-planted-link-refused")
		return
	}
	var rep fsReport
	if res.Status != runner.StatusNormal || json.Unmarshal(line, &rep) != nil {
		x.Failf("C05/"+impl+"/probe-failed/"+strings.Join(names, "+"), "table %v: %v %s; probe said %.200q", names, res.Status, res.Error, string(line))
		return
	}
	ctxs := fmt.Sprintf("%s, table %v", impl, names)
	fail := func(key, format string, a ...any) {
		x.Failf("C05/"+impl+"/"+key, ctxs+": "+format, a...)
	}
	// --- the root
	wantRoot := map[string]bool{"probe": true, "w": true}
	if hasDevnull {
		wantRoot["dev"] = true
	}
	if impl == "container+masks-through-link" {
		wantRoot["mlnk"] = true
	}
	if impl != "namespace-runner" {
		wantRoot["lnk"] = true
	}
	for _, e := range entries {
		if e.class.kind != "none" {
			wantRoot[strings.Split(e.target, "/")[0]] = true
		}
	}
	gotRoot := rawList(rep.Root, "list")
	var want []string
	for k := range wantRoot {
		want = append(want, k)
	}
	sort.Strings(want)
	if fmt.Sprint(gotRoot) != fmt.Sprint(want) {
		fail("root-listing", "the root contains %v, configured: %v", gotRoot, want)
	}
	for _, op := range []string{"create", "mkdir"} {
		if rawInt(rep.Root, op) == 0 {
			fail("root-writable", "%s in the root directory succeeded", op)
		}
	}
	if rawInt(rep.Root, "ro") != 1 {
		fail("root-not-readonly", "the root is not mounted read-only")
	}
	if rep.DotDotRoot != 1 {
		fail("dotdot-escapes", "'..' from the root is another directory")
	}
	if rep.OldRoot != 0 {
		fail("old-root-visible", "/old_root is still there")
	}
	for route, r := range rep.Escapes {
		if r != 0 {
			fail("host-reachable", "the host canary is reachable through %q", route)
		}
	}
	// --- every mount
	obs := ""
	for _, e := range entries {
		t := rep.Targets[e.path]
		c := e.class
		if c.kind == "none" {
			if _, missing := t["missing"]; !missing {
				fail("filtered-mount-present", "%s exists although its source does not", e.path)
			}
			obs += "-"
			continue
		}
		if _, missing := t["missing"]; missing {
			fail("mount-missing/"+c.name, "%s is not there", e.path)
			obs += "?"
			continue
		}
		writeOps := []string{"create", "mkdir", "open_w", "open_trunc", "chmod", "rename", "unlink"}
		if c.kind == "file" {
			writeOps = []string{"open_w", "append", "chmod"}
			if !c.writable {
				writeOps = append(writeOps, "unlink") // the target of a read-only file mount cannot be taken away either
			}
		}
		if c.kind == "tmpfs" {
			writeOps = []string{"create", "mkdir"} // starts empty
		}
		if c.kind == "proc" {
			// proc is judged by its read-only flag only (what can be written depends on the file)
			if (rawInt(t, "ro") == 1) == c.writable {
				fail("proc-flag/"+c.name, "%s read-only flag is %d", e.path, rawInt(t, "ro"))
			}
			obs += "p"
			continue
		}
		succeeded, failed := []string{}, []string{}
		for _, op := range writeOps {
			if rawInt(t, op) == 0 {
				succeeded = append(succeeded, op)
			} else {
				failed = append(failed, fmt.Sprintf("%s:%d", op, rawInt(t, op)))
			}
		}
		if !c.writable && len(succeeded) > 0 {
			fail("read-only-mount-modified/"+c.name, "%s is declared read-only but %v succeeded", e.path, succeeded)
		}
		if c.writable && len(failed) > 0 {
			fail("writable-mount-refuses/"+c.name, "%s is declared writable but %v failed", e.path, failed)
		}
		if (rawInt(t, "ro") == 1) == c.writable {
			fail("readonly-flag/"+c.name, "%s read-only flag is %d, declared writable=%v", e.path, rawInt(t, "ro"), c.writable)
		}
		obs += map[bool]string{true: "w", false: "r"}[len(succeeded) > 0]
	}
	// read-only sources must be untouched on the host
	for _, e := range entries {
		if e.class.kind == "dir" && !e.class.writable {
			if bts, err := os.ReadFile(filepath.Join(e.source, "known")); err != nil || string(bts) != "known" {
				fail("host-source-modified/"+e.class.name, "the read-only source of %s was modified on the host", e.path)
			}
			if _, err := os.Stat(filepath.Join(e.source, "victim")); err != nil {
				fail("host-source-modified/"+e.class.name, "a file of the read-only source of %s was removed", e.path)
			}
		}
	}
	for _, lt := range lateTargets {
		t := rep.Targets[lt]
		if l := rawList(t, "list"); fmt.Sprint(l) != "[secret]" {
			fail("later-host-mount-visible", "%s lists %v after the host mounted a file system below the bind source; configured content: [secret]", lt, l)
		}
		for _, op := range []string{"create", "mkdir"} {
			if rawInt(t, op) == 0 {
				fail("later-host-mount-writable", "%s in %s (below a read-only bind) succeeded after the host mounted a file system there", op, lt)
			}
		}
	}
	for k, nt := range nestedTargets {
		t := rep.Targets[nt]
		var ok []string
		for _, op := range []string{"create", "mkdir"} {
			if rawInt(t, op) == 0 {
				ok = append(ok, op)
			}
		}
		if len(ok) > 0 {
			fail("read-only-mount-modified/nested-mount-of-the-source", "%s (a mount nested in the source of a bind declared read-only) accepts %v", nt, ok)
		}
		if ents, _ := os.ReadDir(nestedSources[k]); len(ents) != 1 {
			fail("host-source-modified/nested-mount-of-the-source", "the mount nested in the read-only source of %s was modified on the host", nt)
		}
	}
	if maskFile != "" {
		mf, md := rep.Targets[maskFile], rep.Targets[maskDir]
		if impl != "container+dirmask-without-devnull" && rawInt(mf, "read_len") > 0 {
			fail("mask-leaks-file", "masked file %s has %d readable bytes (host content, or what the program itself could write into the mask — also after a chmod — and a later program would find)", maskFile, rawInt(mf, "read_len"))
		}
		if l := rawList(md, "list"); len(l) > 0 {
			fail("mask-leaks-directory", "masked directory %s still lists %v", maskDir, l)
		}
		if hasDevnull || impl == "container+dirmask-without-devnull" {
			// a mask is not a mount declared writable: what hides the directory must not be a place to write to
			for _, op := range []string{"create", "mkdir"} {
				if v, ok := md[op]; ok && rawInt(md, op) == 0 {
					_ = v
					fail("mask-writable", "%s inside the masked directory %s succeeded", op, maskDir)
				}
			}
		}
	}
	if impl != "namespace-runner" {
		lt := rep.Targets["/lnk"]
		var ty, to string
		json.Unmarshal(lt["type"], &ty)
		json.Unmarshal(lt["to"], &to)
		if ty != "symlink" || to != "/w" {
			fail("symlink", "/lnk is %q → %q, configured as a symlink to /w", ty, to)
		}
	}
	// --- host view: mountinfo of the sandboxed process lists exactly the configured mounts
	gotMounts := map[string]string{}
	for _, l := range strings.Split(mountinfo, "\n") {
		f := strings.Fields(l)
		if len(f) > 5 {
			ro := "rw"
			for _, o := range strings.Split(f[5], ",") {
				if o == "ro" {
					ro = "ro"
				}
			}
			gotMounts[f[4]] = ro
		}
	}
	wantMounts := map[string]string{"/": "ro", "/probe": "ro", "/w": "rw"}
	if hasDevnull {
		wantMounts["/dev/null"] = "rw"
	}
	for _, e := range entries {
		if e.class.kind == "none" {
			continue
		}
		wantMounts[e.path] = map[bool]string{true: "rw", false: "ro"}[e.class.writable]
		for p, f := range e.also {
			wantMounts[p] = f
		}
	}
	if maskFile != "" {
		if impl != "container+dirmask-without-devnull" {
			wantMounts[maskFile] = ""
		}
		wantMounts[maskDir] = ""
	}
	for p, ro := range wantMounts {
		g, ok := gotMounts[p]
		if !ok {
			fail("mountinfo-missing", "the host sees no mount at %s (mounts: %v)", p, gotMounts)
		} else if ro != "" && g != ro {
			fail("mountinfo-flag", "the host sees %s mounted %s, configured %s", p, g, ro)
		}
	}
	for p := range gotMounts {
		if _, ok := wantMounts[p]; !ok {
			fail("mountinfo-extra", "the sandboxed process has an unconfigured mount at %s", p)
		}
	}
	x.Distinct(fmt.Sprint(impl, names, obs, gotRoot))
	x.Outcome(impl + ":" + obs)
	_ = unix.ST_RDONLY
}
