package main

import (
	"fmt"
	"github.com/criyle/go-sandbox/cmd/runprog/config"
	"os"
	"path/filepath"
	"strings"

	"github.com/criyle/go-sandbox/ptracer"
	"github.com/criyle/go-sandbox/runner/ptrace/filehandler"
	"verif/mc"
)

// C18 — path-set policy admits only covered paths; counters never exceed their budget.
//
// Independent definition (written from the property text):
//   exact entry e      covers p  iff p == e
//   directory entry d/ covers p  iff p == d or p is beneath d
//   children entry d/* covers p  iff p is a direct child of d
//   Add("/") is the exact entry for the root.

type c18entry struct {
	kind int // 0 exact, 1 dir, 2 children
	d    string
}

func (e c18entry) key() string {
	switch e.kind {
	case 1:
		return e.d + "/"
	case 2:
		return e.d + "/*"
	}
	return e.d
}

func c18covers(e c18entry, p string) bool {
	if p == "" {
		return false // the stand-in for an unresolvable name is never covered
	}
	switch e.kind {
	case 0:
		return p == e.d
	case 1:
		if e.d == "" { // "/": everything beneath the root
			return strings.HasPrefix(p, "/")
		}
		return p == e.d || strings.HasPrefix(p, e.d+"/")
	case 2:
		i := strings.LastIndex(p, "/")
		if i < 0 {
			return false
		}
		parent := p[:i]
		return parent == e.d && p != "/" && p[i+1:] != ""
	}
	return false
}

func c18paths(depth int, comps []string) []string {
	var out []string
	var rec func(prefix string, d int)
	rec = func(prefix string, d int) {
		if d == 0 {
			return
		}
		for _, c := range comps {
			p := prefix + "/" + c
			out = append(out, p)
			rec(p, d-1)
		}
	}
	rec("", depth)
	return out
}

func c18entries(paths []string) []c18entry {
	var es []c18entry
	es = append(es, c18entry{0, "/"}) // Add("/")
	es = append(es, c18entry{2, ""})  // "/*"
	for _, p := range paths {
		es = append(es, c18entry{0, p}, c18entry{1, p}, c18entry{2, p})
	}
	return es
}

func c18add(s *filehandler.FileSet, e c18entry) { s.Add(e.key()) }

func init() {
	registry["C18"] = func(tier string) *mc.Spec {
		depth, setMax := 3, 2
		cascadeDepth := 2
		seqLen := 6
		if tier == "thorough" {
			depth, setMax, seqLen = 4, 3, 7
		}
		// component names that do not exist in the host root, so EvalSymlinks contributes nothing
		comps := []string{"vq0p", "vq0q"}
		var symRoot string
		paths := c18paths(depth, comps)
		queries := append([]string{"/", ""}, paths...)
		entries := c18entries(paths)
		cpaths := c18paths(cascadeDepth, comps)
		centries := c18entries(cpaths)
		cqueries := append([]string{"/", ""}, cpaths...)

		spec := &mc.Spec{
			Level: "exploration",
			Rule: "family 0: every entry set of size ≤ setMax over {exact, d/, d/*} × paths(depth) ∪ {Add(/), /*}, every query path incl. / and \"\"; " +
				"family 1: every 4-tuple (Writable,Readable,Statable,SoftBan) of sets of size ≤ 1 at depth 2, Handler.CheckRead/Write/Stat on every query; " +
				"family 2: real symlink forest, raw-or-real clause; family 3: counter tables of ≤ 2 names × counts {-1..3}, all call sequences ≤ seqLen; family 4: sets produced by the grant constructors (AddFilePermission of every path × permission, singly and in pairs; the shipped GetConf loader for every program type, also with command-line additions whose names cannot be resolved: they must grant nothing; a policy built later for another work path grants nothing below the earlier one and answers about its own directory as the earlier one did about its own) — the admitted set is exactly the granted path in its class plus its proper ancestor directories as exact stat entries, on every query incl. \"\" and unresolvable names; family 5: one long-lived policy object asked three times about a link that is re-pointed (covered / uncovered / dangling target, all 27 sequences) between the questions × entry class × class asked: each answer follows from the current target. " +
				"non-trivial: the entry set is non-empty and the query is not literally one of the entries; distinct = hash of (family, set, query, answer)",
			Bound: map[string]any{"depth": depth, "set_size": setMax, "cascade_depth": cascadeDepth, "counter_seq_len": seqLen,
				"excluded": []string{"query / against entry /* (is the root a child of itself?)", "hand-inserted map key \"/\" (not constructible through Add/AddRange)"}},
			Assumptions: []string{"path components vq0p/vq0q do not exist under the host root (checked at start)"},
			SplitDepth:  2,
		}
		spec.Init = func() error {
			for _, c := range comps {
				if _, err := os.Lstat("/" + c); err == nil {
					return fmt.Errorf("/%s exists on the host", c)
				}
			}
			{
				d, err := os.MkdirTemp("", "verif-c18-")
				if err != nil {
					return err
				}
				d, _ = filepath.EvalSymlinks(d)
				symRoot = d
				os.MkdirAll(filepath.Join(d, "d", "e"), 0755)
				os.WriteFile(filepath.Join(d, "d", "f"), nil, 0644)
				os.WriteFile(filepath.Join(d, "d", "e", "g"), nil, 0644)
				os.Symlink("d", filepath.Join(d, "l"))
				os.Symlink(filepath.Join(d, "d", "e"), filepath.Join(d, "m"))
				os.Symlink("nowhere", filepath.Join(d, "dangling"))
			}
			return nil
		}
		spec.Fini = func() {
			if symRoot != "" {
				os.RemoveAll(symRoot)
			}
		}
		spec.Body = func(x *mc.X) {
			switch x.Choose(6, "family") {
			case 5:
				c18history(x)
			case 4:
				c18constructors(x, cpaths, queries)
			case 0:
				c18single(x, entries, queries, setMax)
			case 1:
				c18cascade(x, centries, cqueries)
			case 2:
				c18symlink(x, symRoot)
			case 3:
				c18counter(x, seqLen)
			}
		}
		return spec
	}
}

func c18single(x *mc.X, entries []c18entry, queries []string, setMax int) {
	// choose a set as an ascending index list; the first choice is the size
	size := x.Choose(setMax+1, "size")
	var set []c18entry
	last := -1
	for i := 0; i < size; i++ {
		remaining := len(entries) - (last + 1) - (size - 1 - i)
		if remaining <= 0 {
			return
		}
		k := last + 1 + x.Choose(remaining, "entry")
		set = append(set, entries[k])
		last = k
	}
	fs := filehandler.NewFileSet()
	var names []string
	for _, e := range set {
		c18add(&fs, e)
		names = append(names, e.key())
	}
	x.Note("family", "single-set")
	x.Note("entries", names)
	admitted := 0
	for _, q := range queries {
		x.Count(1)
		exp := false
		excluded := false
		for _, e := range set {
			if q == "/" && e.kind == 2 && e.d == "" {
				excluded = true
			}
			if c18covers(e, q) {
				exp = true
			}
		}
		got := fs.IsInSetSmart(q)
		if excluded && !exp {
			continue
		}
		if got {
			admitted++
		}
		nontrivial := len(set) > 0
		for _, n := range names {
			if n == q {
				nontrivial = false
			}
		}
		if nontrivial {
			x.Distinct(fmt.Sprint("s", names, q, got))
		}
		if got != exp {
			cls := "admits-uncovered"
			if exp {
				cls = "refuses-covered"
			}
			x.Failf("C18/fileset-"+cls, "FileSet%v.IsInSetSmart(%q) = %v, independent definition says %v", names, q, got, exp)
		}
	}
	x.Outcome(fmt.Sprintf("single:size=%d:admitted=%d", size, admitted))
}

func c18cascade(x *mc.X, entries []c18entry, queries []string) {
	sets := filehandler.NewFileSets()
	var pick [4]*c18entry
	labels := []string{"W", "R", "S", "B"}
	for i := 0; i < 4; i++ {
		k := x.Choose(len(entries)+1, labels[i])
		if k > 0 {
			e := entries[k-1]
			pick[i] = &e
		}
	}
	dst := []*filehandler.FileSet{&sets.Writable, &sets.Readable, &sets.Statable, &sets.SoftBan}
	desc := []string{}
	for i, p := range pick {
		if p != nil {
			c18add(dst[i], *p)
			desc = append(desc, labels[i]+"="+p.key())
		}
	}
	x.Note("family", "cascade")
	x.Note("sets", desc)
	h := &filehandler.Handler{FileSet: sets, SyscallCounter: filehandler.NewSyscallCounter()}
	cov := func(i int, q string) (bool, bool) { // covered, excluded
		if pick[i] == nil {
			return false, false
		}
		if q == "/" && pick[i].kind == 2 && pick[i].d == "" {
			return false, true
		}
		return c18covers(*pick[i], q), false
	}
	tally := map[string]int{}
	for _, q := range queries {
		w, ex0 := cov(0, q)
		r, ex1 := cov(1, q)
		s, ex2 := cov(2, q)
		b, ex3 := cov(3, q)
		if ex0 || ex1 || ex2 || ex3 {
			continue
		}
		expAdmit := [3]bool{w, w || r, w || r || s} // write, read, stat
		got := [3]ptracer.TraceAction{h.CheckWrite(q), h.CheckRead(q), h.CheckStat(q)}
		names := [3]string{"write", "read", "stat"}
		for c := 0; c < 3; c++ {
			x.Count(1)
			exp := ptracer.TraceAllow
			if !expAdmit[c] {
				if b {
					exp = ptracer.TraceBan
				} else {
					exp = ptracer.TraceKill
				}
			}
			tally[fmt.Sprint(got[c])]++
			if len(desc) > 0 {
				x.Distinct(fmt.Sprint("c", desc, q, c, got[c]))
			}
			if got[c] != exp {
				x.Failf(fmt.Sprintf("C18/cascade-%s-exp%d-got%d", names[c], exp, got[c]),
					"sets %v: Check%s(%q) = %d, expected %d (0 allow, 1 ban, 2 kill)", desc, names[c], q, got[c], exp)
			}
		}
	}
	x.Outcome(fmt.Sprintf("cascade:%v", tally))
}

func c18symlink(x *mc.X, root string) {
	// entries on real paths; queries through symlinks (and the converse); the policy must admit iff the
	// raw or the real path is covered
	real := func(p string) string {
		r, err := filepath.EvalSymlinks(p)
		if err != nil {
			return ""
		}
		return r
	}
	cands := []string{"d", "d/f", "d/e", "d/e/g", "l", "l/f", "l/e/g", "m", "m/g", "dangling", "missing"}
	ents := []c18entry{}
	for _, c := range []string{"d", "d/e", "l", "m", "d/f"} {
		p := filepath.Join(root, c)
		ents = append(ents, c18entry{0, p}, c18entry{1, p}, c18entry{2, p})
	}
	k := x.Choose(len(ents), "entry")
	cls := x.Choose(3, "class")
	e := ents[k]
	sets := filehandler.NewFileSets()
	dst := []*filehandler.FileSet{&sets.Writable, &sets.Readable, &sets.Statable}
	c18add(dst[cls], e)
	rel := strings.TrimPrefix(e.key(), root)
	x.Note("family", "symlink")
	x.Note("entry", fmt.Sprintf("class%d:%s", cls, rel))
	h := &filehandler.Handler{FileSet: sets, SyscallCounter: filehandler.NewSyscallCounter()}
	adm := 0
	for _, c := range cands {
		q := filepath.Join(root, c)
		covered := c18covers(e, q) || c18covers(e, real(q))
		expAdmit := [3]bool{cls == 0 && covered, cls <= 1 && covered, covered}
		got := [3]ptracer.TraceAction{h.CheckWrite(q), h.CheckRead(q), h.CheckStat(q)}
		for c3 := 0; c3 < 3; c3++ {
			x.Count(1)
			exp := ptracer.TraceKill
			if expAdmit[c3] {
				exp = ptracer.TraceAllow
				adm++
			}
			x.Distinct(fmt.Sprint("y", rel, cls, c, c3, got[c3]))
			if got[c3] != exp {
				x.Failf(fmt.Sprintf("C18/symlink-class%d-exp%d-got%d", c3, exp, got[c3]),
					"entry %s (class %d): check %d of %s = %d, expected %d", rel, cls, c3, c, got[c3], exp)
			}
		}
	}
	x.Outcome(fmt.Sprintf("symlink:admitted=%d", adm))
}

// family 5: one long-lived policy object and a file system that changes between its answers. A name that is covered only
// through what it resolves to (a link) is asked about three times in a row, each time after the link was pointed at a
// covered file, an uncovered file or nothing (all 27 sequences) × entry class × the class asked at each step. Every answer
// must follow from what the name resolves to NOW: an answer remembered from an earlier question admits an uncovered path.
func c18history(x *mc.X) {
	targets := []string{"cov/f", "unc/f", "missing"}
	cls := x.Choose(3, "entry-class")
	var seq, ask [3]int
	for i := range seq {
		seq[i] = x.Choose(len(targets), "link-target")
		ask[i] = x.Choose(3, "class-asked")
	}
	x.Note("family", "history")
	x.Note("case", fmt.Sprintf("entry cov/ in class %d; link r -> %s, %s, %s; classes asked %v", cls, targets[seq[0]], targets[seq[1]], targets[seq[2]], ask))
	if x.Dry() {
		return
	}
	d := tmpDir("c18h")
	defer os.RemoveAll(d)
	d, _ = filepath.EvalSymlinks(d)
	os.MkdirAll(filepath.Join(d, "cov"), 0755)
	os.MkdirAll(filepath.Join(d, "unc"), 0755)
	os.WriteFile(filepath.Join(d, "cov", "f"), nil, 0644)
	os.WriteFile(filepath.Join(d, "unc", "f"), nil, 0644)
	sets := filehandler.NewFileSets()
	dst := []*filehandler.FileSet{&sets.Writable, &sets.Readable, &sets.Statable}
	e := c18entry{1, filepath.Join(d, "cov")} // directory entry: cov and everything beneath it
	c18add(dst[cls], e)
	h := &filehandler.Handler{FileSet: sets, SyscallCounter: filehandler.NewSyscallCounter()}
	link := filepath.Join(d, "r")
	for i := range seq {
		os.Remove(link)
		os.Symlink(filepath.Join(d, targets[seq[i]]), link)
		covered := seq[i] == 0
		admit := covered && cls <= ask[i]
		var got ptracer.TraceAction
		switch ask[i] {
		case 0:
			got = h.CheckWrite(link)
		case 1:
			got = h.CheckRead(link)
		case 2:
			got = h.CheckStat(link)
		}
		x.Count(1)
		exp := ptracer.TraceKill
		if admit {
			exp = ptracer.TraceAllow
		}
		x.Distinct(fmt.Sprint("h", cls, seq, ask, i, got))
		if got != exp {
			x.Failf(fmt.Sprintf("C18/history/answer-does-not-follow-the-current-target/exp%d-got%d", exp, got),
				"entry cov/ (class %d), link pointed at %v in turn: question %d (class %d, link now -> %s) answered %d, expected %d", cls, []string{targets[seq[0]], targets[seq[1]], targets[seq[2]]}, i+1, ask[i], targets[seq[i]], got, exp)
		}
	}
	x.Outcome(fmt.Sprintf("history:%v", seq))
}

func c18counter(x *mc.X, seqLen int) {
	counts := []int{-1, 0, 1, 2, 3}
	// table: a absent|count, b absent|count ; c is never counted
	ca := x.Choose(len(counts)+1, "count(a)")
	cb := x.Choose(len(counts)+1, "count(b)")
	n := x.Choose(seqLen+1, "len")
	sc := filehandler.NewSyscallCounter()
	budget := map[string]int{}
	if ca > 0 {
		sc.Add("a", counts[ca-1])
		budget["a"] = counts[ca-1]
	}
	if cb > 0 {
		sc.AddRange(map[string]int{"b": counts[cb-1]})
		budget["b"] = counts[cb-1]
	}
	h := &filehandler.Handler{FileSet: filehandler.NewFileSets(), SyscallCounter: sc}
	names := []string{"a", "b", "c"}
	var seq []string
	allowed := map[string]int{}
	refused := map[string]bool{}
	trace := ""
	for i := 0; i < n; i++ {
		nm := names[x.Choose(3, "call")]
		seq = append(seq, nm)
		x.Count(1)
		got := h.CheckSyscall(nm)
		trace += fmt.Sprint(int(got))
		b, counted := budget[nm]
		if !counted {
			if got != ptracer.TraceBan {
				x.Failf("C18/counter-uncounted-not-softbanned", "table %v seq %v: uncounted %s → %d, expected soft ban", budget, seq, nm, got)
			}
			continue
		}
		switch got {
		case ptracer.TraceAllow:
			allowed[nm]++
			if refused[nm] {
				x.Failf("C18/counter-allowed-after-refusal", "table %v seq %v: %s allowed after it had been refused", budget, seq, nm)
			}
			if max := b; allowed[nm] > max || max <= 0 {
				x.Failf("C18/counter-over-budget", "table %v seq %v: %s allowed %d times, budget %d", budget, seq, nm, allowed[nm], b)
			}
		case ptracer.TraceKill:
			refused[nm] = true
		default:
			x.Failf("C18/counter-bad-action", "table %v seq %v: counted %s → action %d", budget, seq, nm, got)
		}
	}
	x.Note("family", "counter")
	x.Note("table", budget)
	x.Note("seq", seq)
	if len(budget) > 0 && n > 0 {
		x.Distinct(fmt.Sprint("k", budget, seq, trace))
	}
	x.Outcome(fmt.Sprintf("counter:allow=%d,kill=%d,ban=%d", strings.Count(trace, "0"), strings.Count(trace, "2"), strings.Count(trace, "1")))
}

// c18constructors: the sets are produced by the grant constructor instead of being written down. AddFilePermission(p, perm)
// grants p in the class of perm and every proper ancestor directory of p as an exact stat entry — nothing else: in
// particular not the empty path, which stands for an unresolvable name.
func c18constructors(x *mc.X, paths, queries []string) {
	cands := append([]string{"/", "rel/name", "name"}, paths...)
	perms := []filehandler.FilePerm{filehandler.FilePermWrite, filehandler.FilePermRead, filehandler.FilePermStat}
	pn := []string{"", "write", "read", "stat"}
	if x.Choose(2, "source") == 1 {
		// the shipped loader: whatever it grants, the unresolvable name and names outside every granted tree are refused
		// (the compiler profile grants "/*", the direct children of the root: the probes lie at least two levels down)
		types := []string{"", "python3", "compiler", "default"}
		pt := types[x.Choose(len(types), "type")]
		wp := []string{"/vq0p/work", "/vq0p"}[x.Choose(2, "workpath")]
		// additions given on the command line go through GetExtraSet (names resolved on the host) and AddRange: a name
		// that cannot be resolved (e.g. an output file that does not exist yet) must grant nothing
		extraKinds := []string{"none", "add-readable(unresolvable)", "add-writable(unresolvable)", "add-readable+add-writable(unresolvable)", "add-writable(unresolvable)+raw"}
		ek := extraKinds[x.Choose(len(extraKinds), "additions")]
		var addRead, addWrite []string
		switch ek {
		case "add-readable(unresolvable)":
			addRead = filehandler.GetExtraSet([]string{"/vq0x/no/such/input"}, nil)
		case "add-writable(unresolvable)":
			addWrite = filehandler.GetExtraSet([]string{"/vq0x/no/such/output"}, nil)
		case "add-readable+add-writable(unresolvable)":
			addRead = filehandler.GetExtraSet([]string{"vq0x-relative-missing"}, nil)
			addWrite = filehandler.GetExtraSet([]string{"/vq0x/no/such/output", "/vq0x/another"}, nil)
		case "add-writable(unresolvable)+raw":
			addWrite = filehandler.GetExtraSet([]string{"/vq0x/no/such/output"}, []string{"/vq0r/raw-granted"})
		}
		_, _, _, h := config.GetConf(pt, wp, []string{wp + "/a.out"}, addRead, addWrite, false)
		_, _, _, h0 := config.GetConf(pt, wp, []string{wp + "/a.out"}, nil, nil, false)
		x.Note("family", "constructors/GetConf")
		x.Note("config", fmt.Sprintf("type %q work path %s additions %s", pt, wp, ek))
		tally := map[string]int{}
		// differential: on names inside and outside the work directory that the additions do not name, the verdicts are
		// those of the same configuration without additions
		for _, q := range []string{wp + "/zz-uncovered", wp + "/zz-uncovered/deep", wp + "/a.out", wp, "/vq0x/no/such", "/vq0q/two-levels", ""} {
			g := [3]ptracer.TraceAction{h.CheckWrite(q), h.CheckRead(q), h.CheckStat(q)}
			b := [3]ptracer.TraceAction{h0.CheckWrite(q), h0.CheckRead(q), h0.CheckStat(q)}
			for c := 0; c < 3; c++ {
				x.Count(1)
				x.Distinct(fmt.Sprint("gx", pt, wp, ek, q, c, g[c]))
				if g[c] != b[c] {
					x.Failf(fmt.Sprintf("C18/getconf-unresolvable-addition-grants-%s", pn[c+1]), "GetConf(%q, %s) with %s: Check%s(%q) = %d, without the additions it is %d — a name that cannot be resolved must grant nothing (0 allow, 1 ban, 2 kill)", pt, wp, ek, pn[c+1], q, g[c], b[c])
				}
			}
		}
		if ek == "add-writable(unresolvable)+raw" && h.CheckWrite("/vq0r/raw-granted") != ptracer.TraceAllow {
			x.Failf("C18/getconf-refuses-granted", "GetConf(%q, %s) with %s: the raw addition is not writable", pt, wp, ek)
		}
		for _, q := range []string{"", "/vq0q/unresolvable/elsewhere", "/vq0q/two-levels", "vq0q/relative-unresolvable"} {
			got := [3]ptracer.TraceAction{h.CheckWrite(q), h.CheckRead(q), h.CheckStat(q)}
			for c := 0; c < 3; c++ {
				x.Count(1)
				tally[fmt.Sprint(got[c])]++
				x.Distinct(fmt.Sprint("g", pt, wp, q, c, got[c]))
				if got[c] == ptracer.TraceAllow {
					x.Failf(fmt.Sprintf("C18/getconf-admits-uncovered-%s", pn[c+1]), "GetConf(%q, %s): Check%s(%q) is allowed although no granted entry covers it", pt, wp, pn[c+1], q)
				}
			}
		}
		// and what it grants is granted
		if h.CheckRead(wp+"/a.out") != ptracer.TraceAllow || h.CheckStat(wp) != ptracer.TraceAllow {
			x.Failf("C18/getconf-refuses-granted", "GetConf(%q, %s): the program file or the work path is not admitted", pt, wp)
		}
		// a policy built LATER for another work path (same loader, same tables, same process) grants nothing below the
		// earlier work path, and grants its own: building one policy must not change what the next one is built from
		wp2 := "/vq0s/later/work"
		_, _, _, h2 := config.GetConf(pt, wp2, []string{wp2 + "/a.out"}, nil, nil, false)
		for _, q := range []string{wp + "/zz-uncovered", wp + "/answer.code", wp + "/zz-uncovered/deep"} {
			got := [3]ptracer.TraceAction{h2.CheckWrite(q), h2.CheckRead(q), h2.CheckStat(q)}
			for c := 0; c < 3; c++ {
				x.Count(1)
				x.Distinct(fmt.Sprint("g2", pt, wp, q, c, got[c]))
				if got[c] == ptracer.TraceAllow {
					x.Failf(fmt.Sprintf("C18/getconf-later-policy-admits-the-earlier-work-directory-%s", pn[c+1]), "GetConf(%q, %s) built after GetConf(%q, %s): Check%s(%q) is allowed", pt, wp2, pt, wp, pn[c+1], q)
				}
			}
		}
		if h2.CheckRead(wp2+"/a.out") != ptracer.TraceAllow || h2.CheckStat(wp2) != ptracer.TraceAllow {
			x.Failf("C18/getconf-later-policy-refuses-its-own", "GetConf(%q, %s) built after GetConf(%q, %s): its program file or work path is not admitted", pt, wp2, pt, wp)
		}
		for _, q := range []string{wp2 + "/answer.code", wp2 + "/zz"} {
			// whatever the first policy of this kind says about its own directory, the later one says about its own
			a := [3]ptracer.TraceAction{h0.CheckWrite(wp + strings.TrimPrefix(q, wp2)), h0.CheckRead(wp + strings.TrimPrefix(q, wp2)), h0.CheckStat(wp + strings.TrimPrefix(q, wp2))}
			b := [3]ptracer.TraceAction{h2.CheckWrite(q), h2.CheckRead(q), h2.CheckStat(q)}
			if a != b && wp == "/vq0p/work" {
				x.Failf("C18/getconf-later-policy-differs", "GetConf(%q, …): the policy for %s answers %v about %s, the policy built later for %s answers %v about the same name in its own directory", pt, wp, a, wp+strings.TrimPrefix(q, wp2), wp2, b)
			}
		}
		x.Outcome(fmt.Sprintf("getconf:%v", tally))
		return
	}
	type grant struct {
		p    string
		perm filehandler.FilePerm
	}
	var gs []grant
	n := 1 + x.Choose(2, "grants")
	for i := 0; i < n; i++ {
		gs = append(gs, grant{cands[x.Choose(len(cands), "path")], perms[x.Choose(3, "perm")]})
	}
	sets := filehandler.NewFileSets()
	var desc []string
	var model [4][]c18entry // index by FilePerm (1 write, 2 read, 3 stat)
	for _, g := range gs {
		sets.AddFilePermission(g.p, g.perm)
		desc = append(desc, fmt.Sprintf("AddFilePermission(%q, %s)", g.p, pn[g.perm]))
		if g.p == "/" {
			model[g.perm] = append(model[g.perm], c18entry{1, ""}) // Add("/") is the root entry (see family 0)
		} else {
			model[g.perm] = append(model[g.perm], c18entry{0, g.p})
		}
		for a := g.p; ; {
			i := strings.LastIndex(a, "/")
			if i <= 0 {
				break
			}
			a = a[:i]
			model[filehandler.FilePermStat] = append(model[filehandler.FilePermStat], c18entry{0, a})
		}
	}
	x.Note("family", "constructors/AddFilePermission")
	x.Note("grants", desc)
	h := &filehandler.Handler{FileSet: sets, SyscallCounter: filehandler.NewSyscallCounter()}
	cov := func(perm filehandler.FilePerm, q string) bool {
		for _, e := range model[perm] {
			if e.kind == 1 && e.d == "" {
				if q == "/" { // the root entry admits the root itself
					return true
				}
				continue // whether Add("/") also covers everything beneath is family 0's question, not asked here
			}
			if c18covers(e, q) {
				return true
			}
		}
		return false
	}
	rootGranted := false
	for _, g := range gs {
		if g.p == "/" {
			rootGranted = true
		}
	}
	tally := map[string]int{}
	for _, q := range queries {
		if rootGranted && q != "" && q != "/" {
			continue
		}
		w := cov(filehandler.FilePermWrite, q)
		r := w || cov(filehandler.FilePermRead, q)
		st := r || cov(filehandler.FilePermStat, q)
		exp := [3]bool{w, r, st}
		got := [3]ptracer.TraceAction{h.CheckWrite(q), h.CheckRead(q), h.CheckStat(q)}
		for c := 0; c < 3; c++ {
			x.Count(1)
			want := ptracer.TraceKill
			if exp[c] {
				want = ptracer.TraceAllow
			}
			tally[fmt.Sprint(got[c])]++
			x.Distinct(fmt.Sprint("k", desc, q, c, got[c]))
			if got[c] != want {
				x.Failf(fmt.Sprintf("C18/constructor-%s-exp%d-got%d", pn[c+1], want, got[c]), "%v: Check%s(%q) = %d, expected %d (0 allow, 1 ban, 2 kill)", desc, pn[c+1], q, got[c], want)
			}
		}
	}
	x.Outcome(fmt.Sprintf("constructors:%v", tally))
}
