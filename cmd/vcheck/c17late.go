package main

import (
	"context"
	"encoding/json"
	"fmt"
	"os"
	"os/exec"
	"strings"
	"sync"
	"syscall"
	"time"

	"github.com/criyle/go-sandbox/ptracer"
	"github.com/criyle/go-sandbox/runner"
	"github.com/criyle/go-sandbox/runner/ptrace"
	"github.com/criyle/go-sandbox/runner/unshare"
	"verif/mc"
)

// C17, family "signal of a finished run": the ptrace tracer and the namespace runner keep a cancellation goroutine per
// run that sends SIGKILL to the run's process group. The instant of that kill relative to the end of the run is a
// scheduling decision (verif gate around it): the schedules are "before the run reaps its processes" and "after the run
// has returned", the latter in two variants — before a later run B exists, and once B's program exists under the
// process id the finished run A had (a helper in a private pid namespace makes the pid space small through
// the namespace's pid_max and walks the pid counter round with dummy forks, so the reuse is deterministic). In every schedule the code admits, B must end exactly as it ends alone.

type c17lateReport struct {
	Order   string `json:"order"` // joined | kill-pending-after-return | no-kill
	PidA    int    `json:"pid_a"`
	ResA    string `json:"res_a"`
	Alone   string `json:"b_alone"`
	ResB    string `json:"res_b"`
	Reused  bool   `json:"pid_reused"`
	Tries   int    `json:"tries"`
	KillHit bool   `json:"kill_sent_while_b_existed"`
	Err     string `json:"err,omitempty"`
}

func c17resString(r runner.Result) string {
	return fmt.Sprintf("%s exit=%d err=%q", statusName(r.Status), r.ExitStatus, r.Error)
}

func c17lateRun(kind string, argv []string, sync func(pid int) error) runner.Result {
	ctx, cancel := context.WithTimeout(context.Background(), 30*time.Second)
	defer cancel()
	if kind == "ptrace" {
		return runPtrace(ctx, append([]string{probe("burn")}, argv...), func(r *ptrace.Runner) { r.SyncFunc = sync })
	}
	return runUnshare(ctx, append([]string{"/probe/burn"}, argv...), func(r *unshare.Runner) { r.SyncFunc = sync })
}

const c17pidMax, c17pidMin = 364, 300 // once the pid counter of the namespace has passed 300 the kernel hands out c17pidMin … c17pidMax-1 cyclically

// spawnDummy forks a process that exits at once and returns its pid (moves the namespace's pid counter by one).
func spawnDummy() int {
	syscall.ForkLock.Lock()
	pid, _, e := syscall.RawSyscall6(syscall.SYS_CLONE, uintptr(syscall.SIGCHLD), 0, 0, 0, 0, 0)
	if e == 0 && pid == 0 {
		for {
			syscall.RawSyscall(syscall.SYS_EXIT_GROUP, 0, 0, 0)
		}
	}
	syscall.ForkLock.Unlock()
	if e != 0 {
		return -1
	}
	var ws syscall.WaitStatus
	syscall.Wait4(int(pid), &ws, 0, nil)
	return int(pid)
}

// helper role: vcheck c17late <kindA> <exitA> <kindB> <release: at-once | after-return | when-b-exists>
// runs as pid 1 of a fresh pid namespace with a private mount namespace
func c17lateHelper(args []string) int {
	rep := c17lateReport{}
	emit := func() int {
		b, _ := json.Marshal(rep)
		fmt.Println(string(b))
		return 0
	}
	if len(args) < 4 {
		return 3
	}
	kindA, exitA, kindB, when := args[0], args[1], args[2], args[3]
	syscall.Mount("", "/", "", syscall.MS_REC|syscall.MS_PRIVATE, "")
	if err := syscall.Mount("proc", "/proc", "proc", 0, ""); err != nil {
		rep.Err = "mount proc: " + err.Error()
		return emit()
	}
	devnull()
	// the pid space of this namespace is made small, so that process ids come round again after a few dozen forks
	if err := os.WriteFile("/proc/sys/kernel/pid_max", []byte(fmt.Sprint(c17pidMax)), 0644); err != nil {
		rep.Err = "pid_max: " + err.Error()
		return emit()
	}
	for i := 0; i < 2*c17pidMax; i++ {
		if spawnDummy() >= c17pidMin {
			break
		}
	}

	// B alone (before any gate is set)
	rep.Alone = c17resString(c17lateRun(kindB, []string{"exit", "7"}, func(int) error { return nil }))

	var mu sync.Mutex
	calls0, calls1 := 0, 0
	parked := make(chan int, 1)
	after := make(chan struct{}, 1)
	release := make(chan struct{})
	gate := func(pgid int, phase int) {
		mu.Lock()
		if pgid != rep.PidA {
			// not run A (e.g. the goroutine of the reference run of B, which may still be on its way)
			mu.Unlock()
			return
		}
		var n int
		if phase == 0 {
			calls0++
			n = calls0
		} else {
			calls1++
			n = calls1
		}
		mu.Unlock()
		if n != 1 {
			return // only the cancellation goroutine of run A is steered
		}
		if phase == 0 {
			parked <- pgid
			<-release
		} else {
			after <- struct{}{}
		}
	}
	ptracer.VerifCancelGate = gate
	unshare.VerifCancelGate = gate

	// run A
	doneA := make(chan runner.Result, 1)
	go func() {
		doneA <- c17lateRun(kindA, []string{"exit", exitA}, func(pid int) error { mu.Lock(); rep.PidA = pid; mu.Unlock(); return nil })
	}()
	var resA runner.Result
	returned, isParked := false, false
	select {
	case resA = <-doneA:
		returned = true
	case <-parked:
		isParked = true
	case <-time.After(20 * time.Second):
		rep.Err = "run A neither returned nor reached its cancellation goroutine"
		return emit()
	}
	released := false
	doRelease := func() {
		if !released {
			released = true
			close(release)
		}
	}
	if isParked && !returned {
		if when == "at-once" {
			doRelease()
		}
		// does the run return while its kill is still to be sent? (a run that joins its cancellation goroutine cannot)
		select {
		case resA = <-doneA:
			returned = true
		case <-time.After(400 * time.Millisecond):
		}
		if !returned {
			rep.Order = "joined"
			doRelease()
			select {
			case resA = <-doneA:
				returned = true
			case <-time.After(20 * time.Second):
				rep.Err = "run A did not return after its cancellation goroutine was released"
				return emit()
			}
		} else if when == "at-once" {
			rep.Order = "joined"
		}
	}
	if returned && !isParked {
		select {
		case <-parked:
			isParked = true
		case <-time.After(2 * time.Second):
			rep.Order = "no-kill"
		}
	}
	rep.ResA = c17resString(resA)
	if rep.Order == "" {
		rep.Order = "kill-pending-after-return"
	}
	if rep.Order == "kill-pending-after-return" && when != "when-b-exists" {
		// the kill goes out now, before B is started
		doRelease()
		select {
		case <-after:
		case <-time.After(5 * time.Second):
		}
	}
	// run B under the process id that A's program had
	for rep.Tries = 1; rep.Tries <= 40; rep.Tries++ {
		// move the pid counter until the next process created gets A's id
		exec.Command(probe("burn"), "pidwalk", fmt.Sprint(rep.PidA)).Run()
		hit := false
		resB := c17lateRun(kindB, []string{"exit", "7"}, func(pid int) error {
			if os.Getenv("VERIF_DEBUG") != "" {
				fmt.Fprintf(os.Stderr, "try %d: B's program has pid %d, wanted %d\n", rep.Tries, pid, rep.PidA)
			}
			if pid != rep.PidA {
				return nil
			}
			hit = true
			if !released {
				// B's program exists (it waits for this callback), its id is the one A's cancellation is about to signal
				doRelease()
				select {
				case <-after:
					rep.KillHit = true
				case <-time.After(5 * time.Second):
				}
			}
			return nil
		})
		rep.ResB = c17resString(resB)
		if hit {
			rep.Reused = true
			break
		}
		if rep.ResB != rep.Alone {
			break
		}
	}
	doRelease()
	return emit()
}

func init() { aux["c17late"] = c17lateHelper }

func c17late(x *mc.X) {
	kindA := x.Pick("finished-run", "ptrace", "unshare")
	exitA := x.Pick("its-program-exits-with", "0", "3")
	kindB := x.Pick("later-run", "ptrace", "unshare")
	when := x.Pick("cancellation-kill-of-the-finished-run-is-released", "at-once", "after-return", "when-b-exists")
	if x.Dry() {
		return
	}
	self, _ := os.Executable()
	cmd := exec.Command(self, "c17late", kindA, exitA, kindB, when)
	cmd.SysProcAttr = &syscall.SysProcAttr{Cloneflags: syscall.CLONE_NEWPID | syscall.CLONE_NEWNS, Pdeathsig: syscall.SIGKILL}
	cmd.Stderr = os.Stderr
	var out []byte
	var err error
	if !withTimeout(100*time.Second, func() { out, err = cmd.Output() }) {
		if cmd.Process != nil {
			cmd.Process.Kill()
		}
		x.Failf("C17/late/harness", "helper did not finish")
		return
	}
	var rep c17lateReport
	lines := strings.Split(strings.TrimSpace(string(out)), "\n")
	if jerr := json.Unmarshal([]byte(lines[len(lines)-1]), &rep); jerr != nil || rep.Err != "" {
		x.Failf("C17/late/harness", "helper: %v %v %q %s", err, jerr, string(out), rep.Err)
		return
	}
	x.Note("report", rep)
	wantA := "Normal exit=0 err=\"\""
	if exitA != "0" {
		wantA = "Nonzero Exit Status exit=" + exitA + " err=\"\""
	}
	if rep.ResA != wantA {
		x.Failf("C17/late/finished-run-wrong/"+kindA, "run A (%s, exit %s) with its cancellation goroutine steered (%s) returned %s", kindA, exitA, when, rep.ResA)
	}
	if rep.Alone != "Nonzero Exit Status exit=7 err=\"\"" {
		x.Failf("C17/late/harness", "run B alone: %s", rep.Alone)
		return
	}
	if rep.ResB != rep.Alone {
		x.Failf(fmt.Sprintf("C17/late/signal-of-finished-run-hits-later-run/%s-then-%s", kindA, kindB),
			"run A (%s) had returned while the SIGKILL of its cancellation goroutine was still to be sent; run B (%s) was started, its program got the process id A's program had (%d), the kill went out while B's program existed (%v): B ended %s, alone it ends %s",
			kindA, kindB, rep.PidA, rep.KillHit, rep.ResB, rep.Alone)
	}
	if !rep.Reused {
		x.Outcome("late:pid-not-reused")
		return
	}
	x.Distinct(fmt.Sprint(kindA, exitA, kindB, when, rep.Order, rep.ResB))
	x.Outcome("late:" + rep.Order)
}
