package main

import (
	"context"
	"fmt"
	"os"
	"path/filepath"
	"strings"
	"sync"
	"time"

	"github.com/criyle/go-sandbox/pkg/seccomp"
	"github.com/criyle/go-sandbox/pkg/seccomp/libseccomp"
	"github.com/criyle/go-sandbox/ptracer"
	"github.com/criyle/go-sandbox/runner"
	"github.com/criyle/go-sandbox/runner/ptrace"
	"golang.org/x/sys/unix"
	"verif/mc"
)

// C02 — the file-access policy is consulted about the object the kernel will really touch.
// Differential oracle: the kernel's own resolution of the same (dirfd, pathname) pair (O_PATH open + readlink).

type c02rec struct{ class, path string }

// recording policy: soft-bans everything (so nothing has side effects) and groups the questions by marker
type c02policy struct {
	mu   sync.Mutex
	cur  int
	recs map[int][]c02rec
}

func (p *c02policy) add(class, path string) ptracer.TraceAction {
	p.mu.Lock()
	defer p.mu.Unlock()
	if class == "stat" && strings.HasPrefix(path, "/@@") {
		fmt.Sscan(path[3:], &p.cur)
		return ptracer.TraceBan
	}
	p.recs[p.cur] = append(p.recs[p.cur], c02rec{class, path})
	return ptracer.TraceBan
}
func (p *c02policy) CheckRead(s string) ptracer.TraceAction    { return p.add("read", s) }
func (p *c02policy) CheckWrite(s string) ptracer.TraceAction   { return p.add("write", s) }
func (p *c02policy) CheckStat(s string) ptracer.TraceAction    { return p.add("stat", s) }
func (p *c02policy) CheckSyscall(s string) ptracer.TraceAction { return p.add("syscall:"+s, "") }

// one path argument of a call
type c02parg struct {
	dirfdArg, pathArg int  // argument positions (dirfdArg -1: cwd-relative syscall)
	follow            bool // does the kernel follow a final-component symlink for this argument
	class             string
}

type c02call struct {
	name  string
	nr    int
	args  []c02parg
	extra map[int]string // fixed values of other arguments
	alt   string         // alternative accepted class ("" none)
}

const (
	oCREAT, oEXCL, oTRUNC, oNOFOLLOW, oPATH, oDIRECTORY = 0x40, 0x80, 0x200, 0x20000, 0x200000, 0x10000
)

func c02openClass(flags int) (class, alt string, follow bool) {
	follow = flags&oNOFOLLOW == 0 && !(flags&oCREAT != 0 && flags&oEXCL != 0)
	acc := flags & 3
	switch {
	case flags&oPATH != 0:
		return "read", "stat", follow // neither readable nor writable: both are acceptable answers; with write flags the code says write
	case acc == 3:
		return "write", "read", follow
	case acc != 0 || flags&oCREAT != 0 || flags&oTRUNC != 0:
		return "write", "", follow
	case flags&oEXCL != 0:
		return "read", "write", follow // O_EXCL without O_CREAT cannot create; the stricter answer is accepted
	}
	return "read", "", follow
}

func c02calls(tier string) []c02call {
	var cs []c02call
	openFlags := []int{0, 1, 2, oCREAT, oTRUNC, oCREAT | oEXCL, oNOFOLLOW, oPATH, oPATH | oNOFOLLOW, 1 | oNOFOLLOW}
	if tier == "thorough" {
		openFlags = append(openFlags, 2|oCREAT|oTRUNC, oEXCL, 3, oDIRECTORY, oPATH|1)
	}
	for _, f := range openFlags {
		cl, alt, fo := c02openClass(f)
		if f&oPATH != 0 && (f&3 != 0) {
			cl, alt = "write", "read"
		}
		cs = append(cs, c02call{name: fmt.Sprintf("openat(%#x)", f), nr: 257, args: []c02parg{{0, 1, fo, cl}}, extra: map[int]string{2: fmt.Sprint(f), 3: "0644"}, alt: alt})
		if tier == "thorough" {
			cs = append(cs, c02call{name: fmt.Sprintf("open(%#x)", f), nr: 2, args: []c02parg{{-1, 0, fo, cl}}, extra: map[int]string{1: fmt.Sprint(f), 2: "0644"}, alt: alt})
			cs = append(cs, c02call{name: fmt.Sprintf("openat2(%#x)", f), nr: 437, args: []c02parg{{0, 1, fo, cl}}, extra: map[int]string{2: fmt.Sprintf("@how%d/0/0", f&^oTRUNC|f&oTRUNC), 3: "24"}, alt: alt})
		}
	}
	at := func(name string, nr int, follow bool, class string, extra map[int]string) {
		cs = append(cs, c02call{name: name, nr: nr, args: []c02parg{{0, 1, follow, class}}, extra: extra})
	}
	plain := func(name string, nr int, follow bool, class string) {
		cs = append(cs, c02call{name: name, nr: nr, args: []c02parg{{-1, 0, follow, class}}})
	}
	at("newfstatat", 262, true, "stat", map[int]string{3: "0"})
	at("newfstatat(NOFOLLOW)", 262, false, "stat", map[int]string{3: "0x100"})
	at("unlinkat", 263, false, "write", map[int]string{2: "0"})
	if tier == "thorough" {
		at("unlinkat(REMOVEDIR)", 263, false, "write", map[int]string{2: "0x200"})
		at("statx", 332, true, "stat", map[int]string{2: "0", 3: "0x7ff"})
		at("statx(NOFOLLOW)", 332, false, "stat", map[int]string{2: "0x100", 3: "0x7ff"})
		at("faccessat", 269, true, "stat", map[int]string{2: "4"})
		at("faccessat2(NOFOLLOW)", 439, false, "stat", map[int]string{2: "4", 3: "0x100"})
		at("readlinkat", 267, false, "read", map[int]string{3: "64"})
		at("mkdirat", 258, false, "write", map[int]string{2: "0755"})
		at("mknodat", 259, false, "write", map[int]string{2: "0100644"})
		at("fchmodat", 268, true, "write", map[int]string{2: "0644"})
		at("execveat", 322, true, "read", nil)
		plain("stat", 4, true, "stat")
		plain("lstat", 6, false, "stat")
		plain("access", 21, true, "stat")
		plain("readlink", 89, false, "read")
		plain("unlink", 87, false, "write")
		plain("chmod", 90, true, "write")
		plain("execve", 59, true, "read")
		cs = append(cs, c02call{name: "rename", nr: 82, args: []c02parg{{-1, 0, false, "write"}, {-1, 1, false, "write"}}})
		cs = append(cs, c02call{name: "renameat2", nr: 316, args: []c02parg{{0, 1, false, "write"}, {2, 3, false, "write"}}, extra: map[int]string{4: "0"}})
		cs = append(cs, c02call{name: "linkat", nr: 265, args: []c02parg{{0, 1, false, "write"}, {2, 3, false, "write"}}, extra: map[int]string{4: "0"}})
		cs = append(cs, c02call{name: "linkat(FOLLOW)", nr: 265, args: []c02parg{{0, 1, true, "write"}, {2, 3, false, "write"}}, extra: map[int]string{4: "0x400"}})
		cs = append(cs, c02call{name: "symlinkat", nr: 266, args: []c02parg{{1, 2, false, "write"}}, extra: map[int]string{0: "$0"}})
	} else {
		cs = append(cs, c02call{name: "renameat2", nr: 316, args: []c02parg{{0, 1, false, "write"}, {2, 3, false, "write"}}, extra: map[int]string{4: "0"}})
		plain("lstat", 6, false, "stat")
		cs = append(cs, c02call{name: "symlinkat", nr: 266, args: []c02parg{{1, 2, false, "write"}}, extra: map[int]string{0: "$0"}})
	}
	return cs
}

// a directory whose name ends the way the kernel marks unlinked objects in /proc/<pid>/cwd and /proc/<pid>/fd/<n>
const c02delDir = "e (deleted)"

type c02forest struct {
	root  string
	links map[string]string // relative link path → target
}

func (f *c02forest) build() error {
	for _, d := range []string{"a", "b", "a/c", c02delDir} {
		if err := os.MkdirAll(filepath.Join(f.root, d), 0755); err != nil {
			return err
		}
	}
	for _, x := range []string{"a/x", "b/x", "x", c02delDir + "/x"} {
		os.WriteFile(filepath.Join(f.root, x), []byte("x"), 0644)
	}
	for l, t := range f.links {
		t = strings.ReplaceAll(t, "<abs>", f.root)
		if strings.HasPrefix(t, "<up>") {
			// a relative target that climbs to the file-system root from the link's own directory
			depth := strings.Count(filepath.Dir(filepath.Join(f.root, l)), "/")
			t = strings.Repeat("../", depth) + strings.TrimPrefix(t, "<up>")
		}
		if err := os.Symlink(t, filepath.Join(f.root, l)); err != nil {
			return err
		}
	}
	return nil
}

var (
	c02filterOnce sync.Once
	c02filter     seccomp.Filter
)

func c02Filter() seccomp.Filter {
	c02filterOnce.Do(func() {
		trace := []string{"open", "openat", "openat2", "stat", "lstat", "newfstatat", "statx", "access", "faccessat", "faccessat2", "readlink", "readlinkat", "unlink", "unlinkat",
			"rename", "renameat", "renameat2", "linkat", "symlinkat", "mkdirat", "mknodat", "chmod", "fchmodat", "fchmodat2", "execve", "execveat"}
		c02filter = mustFilter([]string{"read", "write", "mmap", "mprotect", "munmap", "exit", "exit_group", "nanosleep", "getpid", "chdir", "close", "restart_syscall"}, trace, libseccomp.ActionKill)
	})
	return c02filter
}

// kernel resolution of (base directory fd, pathname); ok=false: the kernel itself cannot resolve it (not judged)
func c02resolve(basefd int, p string, follow bool) (string, bool) {
	if p == "" {
		return "", false
	}
	flags := unix.O_PATH | unix.O_CLOEXEC
	if !follow {
		flags |= unix.O_NOFOLLOW
	}
	fd, err := unix.Openat(basefd, p, flags, 0)
	if err == nil {
		l, e := os.Readlink(fmt.Sprintf("/proc/self/fd/%d", fd))
		unix.Close(fd)
		return l, e == nil && strings.HasPrefix(l, "/")
	}
	if err != unix.ENOENT {
		return "", false
	}
	// a non-existing final component: parent as the kernel resolves it + the name. Names ending in a slash, "." or ".."
	// and dangling final links under follow semantics are left to the kernel (not judged).
	q := strings.TrimRight(p, "/")
	if q != p || q == "" {
		return "", false
	}
	i := strings.LastIndex(q, "/")
	parent, final := ".", q
	if i >= 0 {
		parent, final = q[:i], q[i+1:]
		if parent == "" {
			parent = "/"
		}
	}
	if final == "." || final == ".." {
		return "", false
	}
	pfd, err := unix.Openat(basefd, parent, unix.O_PATH|unix.O_DIRECTORY|unix.O_CLOEXEC, 0)
	if err != nil {
		return "", false
	}
	defer unix.Close(pfd)
	var st unix.Stat_t
	if unix.Fstatat(pfd, final, &st, unix.AT_SYMLINK_NOFOLLOW) == nil {
		return "", false // exists (a dangling link): what the kernel does depends on the call
	}
	l, e := os.Readlink(fmt.Sprintf("/proc/self/fd/%d", pfd))
	if e != nil {
		return "", false
	}
	return filepath.Join(l, final), true
}

type c02item struct {
	call  *c02call
	cwd   string // "" = root, "a"
	paths []string
	dirfd string // encoding name
	place string // "" or the sysrun placement prefix of the pathname string(s)
	line  string
}

func init() {
	registry["C02"] = func(tier string) *mc.Spec {
		targets := []string{"b", "<abs>/b", "../b", "a/c", ".", "..", "l2", "dangling", "/proc/self/cwd", "x", "<up>proc/self/cwd", "<up>proc/thread-self/cwd/a", "<chain40>"}
		comps := []string{"a", "b", "c", "x", "l", ".", ".."}
		maxComps := 2
		if tier == "thorough" {
			maxComps = 3
		}
		spec := &mc.Spec{
			Level: "exploration",
			Rule: "one forest per execution (dirs a, b, a/c; files a/x, b/x, x; zero or one symlink at l or a/l over 13 target kinds (relative, absolute, dangling, through /proc/self both absolute and climbing there relatively, the head of a chain of 40 links — the most the kernel follows), thorough: also both with a second link l2); in it every pathname of ≤ maxComps components over {a,b,c,x,l,.,..} × {relative, absolute} × {plain, trailing slash, doubled slash} " +
				"plus /proc/self and /proc/thread-self aliases × cwd ∈ {root, a} × dirfd encoding ∈ {AT_FDCWD sign-extended, AT_FDCWD zero-extended, directory fd, directory fd with garbage in the upper half, closed fd, a directory whose name ends in ' (deleted)' as cwd and as dirfd} × every traced path syscall/flag word of the tier; for five of the names also × placement of the string in the tracee {ordinary, ending at an unmapped page, write-only page, execute-only page, straddling a boundary between two readable pages with 1 byte / half / all but the last character / everything but the terminator before it}, " +
				"issued by a real tracee under runner/ptrace with a recording soft-ban policy. Oracle: the kernel's own resolution of the same (dirfd, pathname) in the harness (O_PATH[|O_NOFOLLOW] + readlink of /proc/self/fd), access class from the call and flags. " +
				"non-trivial: the pathname is not already canonical; distinct = (forest, call, dirfd encoding, pathname, answer)",
			Bound: map[string]any{"max_components": maxComps, "targets": targets,
				"not_judged": "names the kernel itself cannot resolve (ENOENT/ENOTDIR in a middle component, ELOOP, closed dirfd with a relative name, dangling final link, final '.'/'..' that does not exist): the call fails whatever the policy says"},
			Assumptions: []string{"paths refused by the procfs policy before the file policy is consulted count as not admitted (stricter than the property)"},
			SplitDepth:  2,
			Workers:     6,
			Horizon:     300 * time.Second,
		}
		calls := c02calls(tier)
		spec.Init = func() error { devnull(); return nil }
		spec.Fini = cleanupTmp
		spec.Body = func(x *mc.X) {
			links := map[string]string{}
			where := x.Pick("link-at", "none", "l", "a/l")
			if where != "none" {
				t := targets[x.Choose(len(targets), "target")]
				links[where] = t
				x.Note("target", t)
				if t == "<chain40>" {
					// the longest chain the kernel follows: the link and 39 more next to it, the last one points at b
					dir := filepath.Dir(where)
					links[where] = "k2"
					for i := 2; i < 40; i++ {
						links[filepath.Join(dir, fmt.Sprintf("k%d", i))] = fmt.Sprintf("k%d", i+1)
					}
					links[filepath.Join(dir, "k40")] = map[string]string{".": "b", "a": "../b"}[dir]
				}
				if t == "l2" {
					t2 := targets[x.Choose(4, "l2-target")] // l2 sits next to the first link
					links[filepath.Join(filepath.Dir(where), "l2")] = t2
					x.Note("l2-target", t2)
				}
			}
			callLo, callHi := 0, len(calls)
			if tier == "thorough" {
				// split the syscall alphabet over several executions to keep each tracee short
				k := x.Choose(4, "call-slice")
				callLo, callHi = k*len(calls)/4, (k+1)*len(calls)/4
			}
			if x.Dry() {
				return
			}
			c02forestRun(x, links, calls[callLo:callHi], comps, maxComps, tier)
		}
		return spec
	}
}

func c02paths(comps []string, max int) []string {
	var rel []string
	var rec func(prefix string, d int)
	rec = func(prefix string, d int) {
		if d == 0 {
			return
		}
		for _, c := range comps {
			p := c
			if prefix != "" {
				p = prefix + "/" + c
			}
			rel = append(rel, p)
			rec(p, d-1)
		}
	}
	rec("", max)
	return rel
}

func c02forestRun(x *mc.X, links map[string]string, calls []c02call, comps []string, maxComps int, tier string) {
	root := tmpDir("c02f")
	defer os.RemoveAll(root)
	f := &c02forest{root: root, links: links}
	if err := f.build(); err != nil {
		x.Failf("C02/harness", "forest: %v", err)
		return
	}
	// directory descriptor for the tracee (fd 3) and the same directory for the oracle
	dfdA, err := unix.Open(filepath.Join(root, "a"), unix.O_PATH|unix.O_DIRECTORY|unix.O_CLOEXEC, 0)
	if err != nil {
		x.Failf("C02/harness", "%v", err)
		return
	}
	defer unix.Close(dfdA)
	dfdE, err := unix.Open(filepath.Join(root, c02delDir), unix.O_PATH|unix.O_DIRECTORY|unix.O_CLOEXEC, 0)
	if err != nil {
		x.Failf("C02/harness", "%v", err)
		return
	}
	defer unix.Close(dfdE)
	cwdFd := map[string]int{}
	for _, c := range []string{"", "a", c02delDir} {
		fd, _ := unix.Open(filepath.Join(root, c), unix.O_PATH|unix.O_DIRECTORY|unix.O_CLOEXEC, 0)
		cwdFd[c] = fd
		defer unix.Close(fd)
	}
	type enc struct{ name, val string }
	encs := []enc{{"atfdcwd", "-100"}, {"zext-atfdcwd", "0x00000000ffffff9c"}, {"dirfd", "3"}, {"dirfd-upper-garbage", "0xdeadbeef00000003"}, {"closed-fd", "99"}, {"minus-one", "-1"}, {"dirfd4", "4"}}
	rels := c02paths(comps, maxComps)
	var names []string
	for _, r := range rels {
		names = append(names, r, r+"/", root+"//"+r)
		if tier == "thorough" {
			names = append(names, strings.Replace(r, "/", "//", 1), root+"/"+r+"/")
		}
	}
	names = append(names, "/proc/self/cwd/x", "/proc/thread-self/cwd/a/x", "/proc/self/root"+root+"/a/x", "/proc/self/fd/3/x", "/proc/self/cwd/l")
	var script strings.Builder
	strIdx := map[string]int{}
	str := func(s string) string {
		if i, ok := strIdx[s]; ok {
			return fmt.Sprintf("$%d", i)
		}
		strIdx[s] = len(strIdx)
		script.WriteString("S " + s + "\n")
		return fmt.Sprintf("$%d", strIdx[s])
	}
	str("target-text") // $0: symlinkat's target text
	var items []c02item
	var body strings.Builder
	second := []string{"b/x", "l", root + "/a/../b/x"} // second names of two-path calls
	placed := map[string]bool{"a/x": true, "l": true, "l/x": true, "x": true, root + "//a/x": true}
	inDel := map[string]bool{"x": true, "../b/x": true, ".": true}
	for _, cwd := range []string{"", "a", c02delDir} {
		body.WriteString("C " + str(filepath.Join(root, cwd)) + "\n")
		for ci := range calls {
			c := &calls[ci]
			for _, name := range names {
				for _, e := range encs {
					if c.args[0].dirfdArg < 0 && e.name != "atfdcwd" {
						continue
					}
					// the directory named "… (deleted)": as working directory and as directory descriptor 4, a few names only
					if e.name == "dirfd4" && cwd != c02delDir {
						continue
					}
					if cwd == c02delDir && (!inDel[name] || (e.name != "atfdcwd" && e.name != "dirfd4")) {
						continue
					}
					if cwd == "a" && filepath.IsAbs(name) && !strings.HasPrefix(name, "/proc/") {
						continue // the working directory cannot matter for an absolute name
					}

					if filepath.IsAbs(name) && (e.name == "dirfd" || e.name == "zext-atfdcwd" || e.name == "dirfd-upper-garbage") {
						continue // the kernel ignores dirfd for absolute names: AT_FDCWD, a closed descriptor and -1 are tried
					}
					if !filepath.IsAbs(name) && (e.name == "closed-fd" || e.name == "minus-one") && tier != "thorough" {
						continue // relative to a dead descriptor the kernel resolves nothing (not judged)
					}
					// where the pathname string lives in the tracee: ordinary memory, or (for a few names) a page that ends at an
					// unmapped one, a write-only page, an execute-only page — the kernel reads all of them on the tracee's behalf
					places := []string{""}
					if placed[name] && (e.name == "atfdcwd" || e.name == "dirfd") {
						places = append(places, "@edge", "@wo", "@xo", "@st1", "@stm", "@stl", "@stn")
					}
					for _, place := range places {
						ps := []string{name}
						if len(c.args) == 2 {
							ps = append(ps, second[len(items)%len(second)])
						}
						argv := [6]string{"0", "0", "0", "0", "0", "0"}
						for k, v := range c.extra {
							argv[k] = v
						}
						for ai, a := range c.args {
							if a.dirfdArg >= 0 {
								argv[a.dirfdArg] = e.val
								if ai == 1 {
									// the second name is resolved against the *other* kind of base than the first
									if e.name == "dirfd" || e.name == "dirfd-upper-garbage" {
										argv[a.dirfdArg] = "-100"
									} else {
										argv[a.dirfdArg] = "3"
									}
								}
							}
							argv[a.pathArg] = place + str(ps[ai])
						}
						it := c02item{call: c, cwd: cwd, paths: ps, dirfd: e.name}
						it.place = place
						it.line = fmt.Sprintf("X %d %s", c.nr, strings.Join(argv[:], " "))
						fmt.Fprintf(&body, "M %d\n%s\n", len(items), it.line)
						items = append(items, it)
					}
				}
			}
		}
	}
	full := script.String() + body.String() + "M 99999999\nQ 0\n"
	sf, _ := os.CreateTemp(root, ".script")
	sf.WriteString(full)
	sf.Seek(0, 0)
	defer sf.Close()
	pol := &c02policy{recs: map[int][]c02rec{}, cur: -1}
	dirFile := os.NewFile(uintptr(dfdA), "dir")
	_ = dirFile
	ctx, cancel := context.WithTimeout(context.Background(), 280*time.Second)
	defer cancel()
	res := runPtrace(ctx, []string{probe("sysrun")}, func(r *ptrace.Runner) {
		r.Files = []uintptr{sf.Fd(), devnull(), devnull(), uintptr(dfdA), uintptr(dfdE)}
		r.Seccomp = c02Filter()
		r.Handler = pol
		r.WorkDir = root
	})
	if res.Status != runner.StatusNormal {
		x.Failf("C02/run-failed", "links %v: tracee ended %s %q after marker %d of %d", links, statusName(res.Status), res.Error, pol.cur, len(items))
		return
	}
	x.Count(int64(len(items)))
	judged, skipped, refused := 0, 0, 0
	defer os.Chdir("/")
	lastCwd := "?"
	for i, it := range items {
		recs := pol.recs[i]
		base := cwdFd[it.cwd]
		if it.cwd != lastCwd {
			// the oracle runs with the tracee's working directory, so that /proc/self/cwd (also as a link target) means the same
			os.Chdir(filepath.Join(root, it.cwd))
			lastCwd = it.cwd
		}
		allRefused := len(recs) > 0
		for _, r := range recs {
			if !strings.HasPrefix(r.class, "syscall:") {
				allRefused = false
			}
		}
		for ai, a := range it.call.args {
			name := it.paths[ai]
			b := base
			useDirfd := a.dirfdArg >= 0 && (it.dirfd == "dirfd" || it.dirfd == "dirfd-upper-garbage")
			if ai == 1 && a.dirfdArg >= 0 {
				useDirfd = !useDirfd
			}
			if useDirfd {
				b = dfdA
			}
			if a.dirfdArg >= 0 && it.dirfd == "dirfd4" && ai == 0 {
				b = dfdE
			}
			if a.dirfdArg >= 0 && (it.dirfd == "closed-fd" || it.dirfd == "minus-one") && !filepath.IsAbs(name) && ai == 0 {
				skipped++
				continue
			}
			oracleName := name
			for _, alias := range []struct{ pre, repl string }{{"/proc/self/cwd", filepath.Join(root, it.cwd)}, {"/proc/thread-self/cwd", filepath.Join(root, it.cwd)},
				{"/proc/self/root", ""}, {"/proc/self/fd/3", filepath.Join(root, "a")}} {
				if strings.HasPrefix(name, alias.pre+"/") {
					oracleName = alias.repl + name[len(alias.pre):]
				}
			}
			if oracleName != name && len(links) >= 40 {
				// the alias costs the tracee two link traversals that the rewritten name does not have: with the 40-link chain
				// the tracee's own call ends in ELOOP whatever the policy says
				skipped++
				continue
			}
			exp, ok := c02resolve(b, oracleName, a.follow)
			if !ok {
				skipped++
				continue
			}
			judged++
			var got *c02rec
			if ai < len(recs) {
				got = &recs[ai]
			}
			if got != nil && strings.HasPrefix(got.class, "syscall:") || (got == nil && allRefused) {
				refused++ // refused by the procfs policy before the file policy: not admitted
				continue
			}
			nontrivial := filepath.Clean(name) != name || !filepath.IsAbs(name) || exp != name
			kind := c02kind(it, name, ai, links)
			if got != nil && got.path != exp {
				switch kind {
				case "dotdot-after-symlink":
					// signature of the known defect: the answer is what resolution of the lexically collapsed name gives
					if lex, ok := c02resolve(b, filepath.Clean(oracleName), true); ok && lex == got.path {
						kind += "(lexically-collapsed)"
					}
				case "nofollow-final-symlink":
					// signature of the known defect: the final link was followed
					if fol, ok := c02resolve(b, oracleName, true); ok && fol == got.path {
						kind += "(followed)"
					} else if !ok {
						// dangling link (possibly through a chain): followed lexically, link directory + target text
						cur := exp
						for i := 0; i < 40; i++ {
							tgt, err := os.Readlink(cur)
							if err != nil {
								break
							}
							if !filepath.IsAbs(tgt) {
								tgt = filepath.Join(filepath.Dir(cur), tgt)
							}
							cur = filepath.Clean(tgt)
							// a target through the tracee's own /proc/self/cwd means the tracee's working directory
							for _, pre := range []string{"/proc/self/cwd", "/proc/thread-self/cwd"} {
								if cur == pre || strings.HasPrefix(cur, pre+"/") {
									cur = filepath.Join(root, it.cwd) + cur[len(pre):]
								}
							}
						}
						if cur == got.path {
							kind += "(followed)"
						}
					}
				}
			}
			if got == nil {
				x.Failf("C02/policy-not-asked/"+kind, "links %v cwd=%q %s (%s) name %q [dirfd %s%s]: the policy was not asked about argument %d; kernel object %q", links, it.cwd, it.call.name, it.line, name, it.dirfd, it.place, ai, exp)
				continue
			}
			if nontrivial {
				x.Distinct(fmt.Sprint(links, it.call.name, it.dirfd, it.place, it.cwd, name, got.path))
			}
			if got.path != exp {
				x.Failf("C02/wrong-object/"+kind, "links %v cwd=%q %s name %q [dirfd %s%s]: policy asked about %q, the kernel resolves to %q", links, it.cwd, it.call.name, name, it.dirfd, it.place, got.path, exp)
				continue
			}
			if got.class != a.class && got.class != it.call.alt {
				x.Failf(fmt.Sprintf("C02/wrong-class/%s-asked-%s", it.call.name, got.class), "links %v %s name %q: policy asked for %s access, the call needs %s", links, it.call.name, name, got.class, a.class)
			}
		}
	}
	x.Note("forest", fmt.Sprint(links))
	x.Note("items", fmt.Sprintf("%d calls, %d arguments judged, %d not judged (kernel cannot resolve), %d refused by the procfs policy", len(items), judged, skipped, refused))
	x.Outcome(fmt.Sprintf("links=%d judged>0=%v refused>0=%v", len(links), judged > 0, refused > 0))
}

// c02kind classifies a failing case for the findings file.
func c02kind(it c02item, name string, ai int, links map[string]string) string {
	a := it.call.args[ai]
	if it.call.name == "symlinkat" && !(strings.TrimRight(name, "/") == "l" || strings.HasSuffix(strings.TrimRight(name, "/"), "/l") || strings.HasSuffix(strings.TrimRight(name, "/"), "l2") || strings.Contains(name, "..")) {
		return "symlinkat-argument-layout"
	}
	comps := strings.Split(name, "/")
	sawLink := false
	for _, c := range comps {
		if c == "l" || c == "l2" {
			sawLink = true
		}
		if c == ".." && sawLink && len(links) > 0 {
			return "dotdot-after-symlink"
		}
	}
	if !a.follow {
		last := strings.TrimRight(name, "/")
		if i := strings.LastIndex(last, "/"); i >= 0 {
			last = last[i+1:]
		}
		if (last == "l" || last == "l2") && len(links) > 0 {
			return "nofollow-final-symlink"
		}
	}
	if strings.HasPrefix(name, "/proc/") {
		return "proc-alias"
	}
	if a.dirfdArg >= 0 && filepath.IsAbs(name) && (it.dirfd == "closed-fd" || it.dirfd == "minus-one") {
		return "absolute-name-with-dead-dirfd"
	}
	if a.dirfdArg >= 0 && !filepath.IsAbs(name) {
		switch it.dirfd {
		case "zext-atfdcwd":
			return "dirfd=zext-atfdcwd"
		case "dirfd-upper-garbage":
			return "dirfd=upper-garbage"
		}
	}
	return "other/" + it.call.name
}
