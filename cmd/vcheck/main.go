// vcheck: one binary, one sub-command per property: vcheck <id> <quick|thorough> [--worker|--replay f]
package main

import (
	"fmt"
	"os"
	"runtime"
	"sort"

	"github.com/criyle/go-sandbox/container"
	"verif/mc"
)

var registry = map[string]func(tier string) *mc.Spec{}

// aux holds non-check sub-commands (helper roles re-executed by checks).
var aux = map[string]func(args []string) int{}

func init() {
	// this binary is also the container init of every container it builds
	container.Init()
}

func main() {
	// the main goroutine keeps the main thread for itself: the Go runtime never terminates the main thread, so a
	// goroutine of a check that happened to run on it would hide "thread exits while still locked" effects by chance
	runtime.LockOSThread()
	if len(os.Args) < 2 {
		usage()
	}
	if f, ok := aux[os.Args[1]]; ok {
		os.Exit(f(os.Args[2:]))
	}
	if len(os.Args) < 3 {
		usage()
	}
	mk, ok := registry[os.Args[1]]
	if !ok {
		usage()
	}
	tier := os.Args[2]
	if tier != "quick" && tier != "thorough" {
		usage()
	}
	s := mk(tier)
	s.ID, s.Tier = os.Args[1], tier
	os.Exit(s.Main(os.Args[3:]))
}

func usage() {
	var ids []string
	for k := range registry {
		ids = append(ids, k)
	}
	sort.Strings(ids)
	fmt.Fprintf(os.Stderr, "usage: vcheck <id> quick|thorough [--replay file]\nids: %v\n", ids)
	os.Exit(3)
}
