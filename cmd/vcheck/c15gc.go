package main

import (
	"context"
	"encoding/json"
	"fmt"
	"os"
	"os/exec"
	"path/filepath"
	"runtime"
	"runtime/debug"
	"strings"
	"syscall"
	"unsafe"

	"github.com/criyle/go-sandbox/ptracer"
	"github.com/criyle/go-sandbox/runner"
	"github.com/criyle/go-sandbox/runner/ptrace"
	"verif/mc"
)

// C15, family 4: pointer values that mean something in the TRACER's own address space. A traced program is free to pass
// any number as a pathname pointer; numbers inside the tracing process's Go heap range are ordinary garbage for the
// program (unmapped there) but, if the tracer ever keeps such a number in a pointer-typed slot, its garbage collector
// takes it for a pointer of its own. The verif point inside the tracer's read of tracee memory runs a complete
// collection at exactly the instant the request holds the tracee's address — the one schedule of "collector vs. read"
// that matters — for every pointer kind × path syscall shape × policy. The tracer runs in a helper process so that a
// fatal error of the runtime (which no recover() catches) is observed as the death of that process.

var c15gcKinds = []string{"freed-heap-span", "inside-a-live-heap-object", "one-past-a-live-heap-object", "heap-arena-never-used", "goroutine-stack", "data-segment"}

var c15gcCalls = []struct{ name, line string }{
	{"openat", "X 257 -100 %s 0 0"},
	{"open", "X 2 %s 0 0"},
	{"newfstatat", "X 262 -100 %s @null 0"},
	{"renameat2(both names)", "X 316 -100 %s -100 %s 0"},
	{"execve", "X 59 %s 0 0"},
}

func c15gc(x *mc.X) {
	kind := x.Pick("pointer-into-the-tracer", c15gcKinds...)
	call := c15gcCalls[x.Choose(len(c15gcCalls), "call")]
	allow := x.Bool("allow-all")
	x.Note("case", fmt.Sprintf("program calls %s with a pointer value that lies in the tracer's %s; a collection runs inside the tracer's read of it (policy: %s)", call.name, kind, map[bool]string{true: "allow all", false: "soft-ban all"}[allow]))
	if x.Dry() {
		return
	}
	dir := tmpDir("c15g")
	defer os.RemoveAll(dir)
	os.Chmod(dir, 0755)
	self, _ := os.Executable()
	cmd := exec.Command(self, "c15gc", dir, fmt.Sprint(allow), kind, call.line)
	var out strings.Builder
	cmd.Stdout = &out
	errf, _ := os.Create(filepath.Join(dir, ".stderr"))
	cmd.Stderr = errf
	cmd.SysProcAttr = &syscall.SysProcAttr{Setpgid: true, Pdeathsig: syscall.SIGKILL}
	var werr error
	if err := cmd.Start(); err != nil {
		x.Failf("C15/harness", "helper: %v", err)
		return
	}
	returned := withTimeout(horizon, func() { werr = cmd.Wait() })
	errf.Close()
	key := "tracer-pointer/" + kind
	if !returned {
		syscall.Kill(-cmd.Process.Pid, syscall.SIGKILL)
		cmd.Wait()
		x.Failf("C15/"+key+"/tracer-stuck", "%s, %s: the run did not return within the horizon", kind, call.name)
		x.Outcome("stuck")
		return
	}
	var rep struct {
		Status      int
		Error       string
		Collections int
	}
	if werr != nil || json.Unmarshal([]byte(out.String()), &rep) != nil {
		tail, _ := os.ReadFile(filepath.Join(dir, ".stderr"))
		first := ""
		for _, l := range strings.Split(string(tail), "\n") {
			if strings.Contains(l, "fatal error") || strings.Contains(l, "panic") {
				first = strings.TrimSpace(l)
				break
			}
		}
		if first == "" {
			first = strings.SplitN(strings.TrimSpace(string(tail)), "\n", 2)[0]
		}
		if len(first) > 120 {
			first = first[:120]
		}
		x.Failf("C15/"+key+"/tracer-process-died", "%s, %s: the process running the tracer ended with %v before reporting a result: %q", kind, call.name, werr, first)
		x.Outcome("tracer-died")
		return
	}
	st := runner.Status(rep.Status)
	x.Note("result", fmt.Sprintf("%s %q, %d collections inside reads", statusName(st), rep.Error, rep.Collections))
	x.Add("collections_inside_reads", int64(rep.Collections))
	if rep.Collections == 0 {
		x.Failf("C15/harness", "%s, %s: the tracer never read tracee memory (no collection was placed)", kind, call.name)
	}
	x.Distinct(fmt.Sprint("gc", kind, call.name, allow, st))
	x.Outcome("tracer-pointer:" + statusName(st))
	if !c15verdicts[st] {
		x.Failf(fmt.Sprintf("C15/%s/%s:%s", key, statusName(st), rep.Error), "%s, %s: result %s %q is not a verdict about the program", kind, call.name, statusName(st), rep.Error)
	}
}

var c15gcKeep []byte
var c15gcData [64]byte

func init() {
	// helper role: vcheck c15gc <dir> <allow> <kind> <call line with %s for the pointer>
	aux["c15gc"] = func(args []string) int {
		if len(args) < 4 {
			return 3
		}
		dir, kind, line := args[0], args[2], args[3]
		var h ptrace.Handler = banAll{}
		if args[1] == "true" {
			h = allowHandler{}
		}
		var addr uintptr
		switch kind {
		case "freed-heap-span":
			// a large object gets spans of its own; once it is collected the address lies in heap address space that holds no object
			b := make([]byte, 8<<20)
			b[0] = 1
			addr = uintptr(unsafe.Pointer(&b[1<<20]))
			b = nil
			runtime.GC()
			runtime.GC()
			debug.FreeOSMemory()
		case "inside-a-live-heap-object":
			c15gcKeep = make([]byte, 1<<20)
			addr = uintptr(unsafe.Pointer(&c15gcKeep[4096]))
		case "one-past-a-live-heap-object":
			c15gcKeep = make([]byte, 1<<20)
			addr = uintptr(unsafe.Pointer(&c15gcKeep[0])) + 1<<20
		case "heap-arena-never-used":
			c15gcKeep = make([]byte, 64)
			addr = (uintptr(unsafe.Pointer(&c15gcKeep[0])) &^ (64<<20 - 1)) + 48<<20
		case "goroutine-stack":
			var local [64]byte
			addr = uintptr(unsafe.Pointer(&local[0]))
			runtime.KeepAlive(&local)
		case "data-segment":
			addr = uintptr(unsafe.Pointer(&c15gcData[0]))
		}
		n := 0
		ptracer.VerifVMRead = func() { n++; runtime.GC() }
		p := fmt.Sprintf("%#x", addr)
		script := "S a\n" + fmt.Sprintf(line, p, p)
		if i := strings.Index(script, "%!(EXTRA"); i >= 0 {
			script = script[:i]
		}
		script += "\nQ 0\n"
		os.WriteFile(filepath.Join(dir, ".script"), []byte(script), 0644)
		sf, err := os.Open(filepath.Join(dir, ".script"))
		if err != nil {
			return 3
		}
		devnull()
		ctx, cancel := context.WithTimeout(context.Background(), horizon)
		defer cancel()
		res := runPtrace(ctx, []string{probe("sysrun")}, func(r *ptrace.Runner) {
			r.Files = []uintptr{sf.Fd(), devnull(), devnull()}
			r.Seccomp = c15Filter()
			r.Handler = h
			r.WorkDir = dir
		})
		b, _ := json.Marshal(map[string]any{"Status": int(res.Status), "Error": res.Error, "Collections": n})
		os.Stdout.Write(b)
		return 0
	}
}

var _ = mc.VerifDir
