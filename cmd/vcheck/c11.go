package main

import (
	"context"
	"fmt"
	"os"
	"strings"
	"sync"
	"sync/atomic"
	"syscall"
	"time"

	"github.com/criyle/go-sandbox/container"
	"github.com/criyle/go-sandbox/pkg/forkexec"
	"github.com/criyle/go-sandbox/pkg/seccomp"
	"github.com/criyle/go-sandbox/pkg/seccomp/libseccomp"
	"github.com/criyle/go-sandbox/ptracer"
	"github.com/criyle/go-sandbox/runner"
	"github.com/criyle/go-sandbox/runner/unshare"
	"verif/mc"
)

// C11 — cancel / Destroy at any moment end the run promptly with a truthful verdict.
// Cancellation and Destroy instants are pinned at every gate (named point, callback, tracer step), one deterministic
// execution per instant.

// judge a cancelled run: prog "pause" never ends by itself, prog "exit" ends with code 7
func c11judge(x *mc.X, who, instant, prog string, res runner.Result, returned bool, nonce string) {
	ctx := fmt.Sprintf("%s, cancel %s, program %s", who, instant, prog)
	if !returned {
		x.Failf("C11/"+who+"/cancel-lost/"+instant, "%s: the run did not return within the horizon", ctx)
		killNonce(nonce)
		return
	}
	okStatus := res.Status == runner.StatusTimeLimitExceeded
	if prog == "exit" && res.Status == runner.StatusNonzeroExitStatus && res.ExitStatus == 7 {
		okStatus = true // the program's genuine verdict
	}
	if !okStatus {
		x.Failf(fmt.Sprintf("C11/%s/verdict-%s/%s", who, statusName(res.Status), instant), "%s: result %s exit=%d %q; expected Time Limit Exceeded or the program's genuine verdict", ctx, statusName(res.Status), res.ExitStatus, res.Error)
	}
	if nonce != "" {
		if !waitUntil(horizon, func() bool { return len(scanNonce(nonce)) == 0 }) {
			x.Failf("C11/"+who+"/process-survives/"+instant, "%s: processes %v of the run are still alive after it returned", ctx, scanNonce(nonce))
			killNonce(nonce)
		}
	}
}

func init() {
	registry["C11"] = func(tier string) *mc.Spec {
		spec := &mc.Spec{
			Level: "model_checking",
			Rule: "pinned-schedule enumeration on the implementation (shares the C10 model's gates): container — cancel before the call, inside the callback, with the host held at each named point of Execve (send/recv of execve, pid, ok; before the select), with the result held in flight, with the child ended but unreported, × program {never ends, exits 7} × sync {before, after} exec; " +
				"tracer — cancel before Trace, with the child held before setsid, inside the callback, at every tracer step (each Debug call of the tracer loop and each handler call for the program's traced pause / exit_group, the handler returning at once or only after the kill has landed, answering allow, soft-ban, or — like a path policy — kill unless the name of a traced access(2) reads as expected); namespace runner — before Run, inside the callback, while the program runs; container again — a run started right after a sync-after-exec launch was refused while one of its descendants is frozen (cgroup freezer, thawed 0.5 s later), cancelled in its callback or while running; Destroy — while Execve / Open / Ping is in flight with a pump or the caller held at each host point, or with the container's reply withheld. " +
				"Oracle: the call returns within the horizon with Time Limit Exceeded or the program's genuine verdict, never Runner Error / Disallowed Syscall; nothing of the run stays alive; after Destroy the in-flight call has returned and the init is gone. distinct = (runner, instant, program, observation)",
			Bound:       map[string]any{"not_pinned": "instants strictly between two consecutive gates; the namespace runner's window between program exit and Run returning"},
			Assumptions: []string{"gate granularity; the horizon (10 s) is three orders of magnitude above normal latency"},
			SplitDepth:  2,
			Workers:     4,
			Horizon:     120 * time.Second,
		}
		spec.Init = func() error { devnull(); return nil }
		spec.Fini = cleanupTmp
		spec.Body = func(x *mc.X) {
			switch x.Pick("family", "container-cancel", "tracer-cancel", "unshare-cancel", "destroy", "container-cancel-after-a-refusal-with-a-slow-descendant") {
			case "container-cancel-after-a-refusal-with-a-slow-descendant":
				c11slowDescendant(x)
			case "container-cancel":
				c11container(x)
			case "tracer-cancel":
				c11tracer(x)
			case "unshare-cancel":
				c11unshare(x)
			case "destroy":
				c11destroy(x)
			}
		}
		return spec
	}
}

type c11point struct {
	name     string
	side     string
	id, arg  int
	callback bool
}

func c11container(x *mc.X) {
	points := []c11point{
		{"before-call", "", 0, 0, false}, {"inside-callback", "", 0, 0, true},
		{"host-held@send-pre(execve)", "H", container.VPHostSendPre, 5, false}, {"host-held@send-post(execve)", "H", container.VPHostSendPost, 5, false},
		{"host-held@recv(pid)", "H", container.VPHostRecv, container.VKAck | container.VKCred, false},
		{"host-held@send-pre(ok)", "H", container.VPHostSendPre, 6, false}, {"host-held@send-post(ok)", "H", container.VPHostSendPost, 6, false},
		{"host-held@select", "H", container.VPHostSelect, -1, false},
		{"result-in-flight@recv(result)", "H", container.VPHostRecv, container.VKResult | container.VKCred, false},
		{"child-ended-unreported@waited", "C", container.VPContWaited, -1, false},
		{"container-held@started", "C", container.VPContStarted, -1, false}, {"container-held@select", "C", container.VPContSelect, -1, false},
		{"container-held@send-pre(result)", "C", container.VPContSendPre, container.VKResult, false},
	}
	pt := points[x.Choose(len(points), "instant")]
	prog := x.Pick("program", "pause", "exit")
	syncAfter := x.Bool("syncafter")
	x.Note("instant", pt.name)
	if x.Dry() {
		return
	}
	if (strings.Contains(pt.name, "result") || strings.Contains(pt.name, "unreported")) && prog == "pause" {
		x.Outcome("n/a:program-never-ends")
		return
	}
	env, err := c10build()
	if err != nil {
		x.Failf("C11/harness", "%v", err)
		return
	}
	defer env.close()
	nonce := newNonce()
	argv := []string{"/probe/burn", "pause", nonce}
	if prog == "exit" {
		argv = []string{"/probe/burn", "exit", "7", nonce}
	}
	p := execveParam(argv)
	p.SyncAfterExec = syncAfter
	ctx, cancel := context.WithCancel(context.Background())
	defer cancel()
	if pt.name == "before-call" {
		cancel()
	}
	p.SyncFunc = func(int) error {
		if pt.callback {
			cancel()
		}
		return nil
	}
	if pt.side != "" {
		h := env.ctl.Hold(pt.side, pt.id, pt.arg)
		go func() {
			if h.WaitParked(horizon) {
				cancel()
				time.Sleep(2 * time.Millisecond)
			}
			h.Release()
		}()
		defer h.Release()
	}
	var res runner.Result
	returned := withTimeout(horizon, func() { res = env.c.Execve(ctx, p) })
	who := "container"
	if syncAfter {
		who = "container-syncafter"
	}
	if pt.side != "" && returned && ctx.Err() == nil {
		// the held point was never reached in this configuration (e.g. no pid reply kind): the run simply completed
		x.Outcome("instant-not-reached:" + statusName(res.Status))
		cancel()
		return
	}
	x.Note("result", fmt.Sprintf("%s exit=%d %q returned=%v", statusName(res.Status), res.ExitStatus, res.Error, returned))
	c11judge(x, who, pt.name, prog, res, returned, nonce)
	if returned {
		if perr := envUsable(env.c); perr != nil {
			x.Failf("C11/"+who+"/unusable-after-cancel/"+pt.name, "cancel %s, program %s: the next request afterwards: %v", pt.name, prog, perr)
		}
	}
	x.Distinct(fmt.Sprint(who, pt.name, prog, res.Status))
	x.Outcome(who + ":" + statusName(res.Status))
}

// tracer handler that cancels at the k-th Debug call
// c11canceller cancels the run at its k-th tracer step. A step is a Debug call of the tracer loop or a Handle call
// (a traced system call of the program: the tracee sits in its seccomp stop while the handler runs). With landed set,
// the handler does not return before the cancellation's kill has reached the main process, so that everything the
// tracer does next meets a tracee that is gone.
type c11canceller struct {
	k      int
	n      int32
	cancel func()
	landed bool
	ban    bool
	// readPath: the handler decides like a path policy — it reads the name of a traced access(2) from the tracee and
	// answers kill when that is not the expected name (a tracee killed under the handler reads as empty memory)
	readPath string
	main     int32
}

func (h *c11canceller) step() {
	if int(atomic.AddInt32(&h.n, 1))-1 == h.k {
		h.cancel()
		if h.landed {
			pid := int(atomic.LoadInt32(&h.main))
			waitUntil(2*time.Second, func() bool { return pid == 0 || !pidAlive(pid) })
		}
	}
}

func (h *c11canceller) Handle(c *ptracer.Context) ptracer.TraceAction {
	h.step()
	if h.readPath != "" {
		if c.SyscallNo() == 21 /* access */ && c.GetString(uintptr(c.Arg0())) != h.readPath {
			return ptracer.TraceKill
		}
		return ptracer.TraceAllow
	}
	if h.ban {
		c.SetReturnValue(-int(syscall.EACCES))
		return ptracer.TraceBan
	}
	return ptracer.TraceAllow
}

func (h *c11canceller) Debug(v ...interface{}) {
	if len(v) >= 2 {
		if s, ok := v[0].(string); ok && strings.HasPrefix(s, "tracer started") {
			if p, ok := v[1].(int); ok {
				atomic.StoreInt32(&h.main, int32(p))
			}
		}
	}
	h.step()
}

var (
	c11filterOnce sync.Once
	c11filter     seccomp.Filter
)

func c11Filter() seccomp.Filter {
	c11filterOnce.Do(func() { c11filter = mustFilter(nil, []string{"pause", "exit_group", "access"}, libseccomp.ActionAllow) })
	return c11filter
}

func c11tracer(x *mc.X) {
	kinds := []string{"before-trace", "child-held-before-setsid", "inside-callback", "at-tracer-step"}
	kind := kinds[x.Choose(len(kinds), "instant")]
	prog := x.Pick("program", "pause", "exit")
	k := -1
	if kind == "at-tracer-step" {
		k = x.Choose(24, "step")
	}
	withSync := true
	if kind == "before-trace" || kind == "child-held-before-setsid" {
		withSync = x.Bool("with-callback")
	}
	landed, ban, readPath := false, false, false
	if kind == "at-tracer-step" {
		landed = x.Bool("handler-returns-only-after-the-kill-landed")
		switch x.Pick("handler-verdict", "allow", "soft-ban", "kill-unless-the-path-reads-as-expected") {
		case "soft-ban":
			ban = true
		case "kill-unless-the-path-reads-as-expected":
			readPath = true
		}
	}
	instant := kind
	if k >= 0 {
		instant = fmt.Sprintf("%s-%d", kind, k)
	}
	if landed {
		instant += "+kill-landed"
	}
	if ban {
		instant += "+ban"
	}
	if readPath {
		instant += "+path-policy"
	}
	x.Note("instant", instant)
	if x.Dry() {
		return
	}
	nonce := newNonce()
	argv := []string{probe("burn"), "pause", nonce}
	if prog == "exit" {
		argv = []string{probe("burn"), "exit", "7", nonce}
	}
	if readPath {
		// the same two programs with one path system call (access of a name that is the nonce) in front
		argv = []string{probe("burn"), "apause", nonce}
		if prog == "exit" {
			argv = []string{probe("burn"), "aexit", "7", nonce}
		}
	}
	ctx, cancel := context.WithCancel(context.Background())
	defer cancel()
	// the program's own pause / exit_group calls are traced, so that some steps are handler calls with the tracee in a seccomp stop
	ch := &forkexec.Runner{Args: argv, Env: []string{}, Files: stdioNull(), Seccomp: c11Filter().SockFprog(), Ptrace: true, UnshareCgroupAfterSync: true}
	if withSync {
		ch.SyncFunc = func(int) error {
			if kind == "inside-callback" {
				cancel()
			}
			return nil
		}
	}
	h := &c11canceller{k: k, cancel: cancel, landed: landed, ban: ban}
	if readPath {
		h.readPath = nonce
	}
	t := ptracer.Tracer{Handler: h, Runner: ch, Limit: bigLimit}
	var gateW *os.File
	switch kind {
	case "before-trace":
		cancel()
	case "child-held-before-setsid":
		r, w, _ := os.Pipe()
		gateW = w
		forkexec.VerifChildGateFd = int(r.Fd())
		defer func() { forkexec.VerifChildGateFd = 0; r.Close() }()
		cancel()
		// the child is released only after the cancellation had every chance to act
		go func() { time.Sleep(100 * time.Millisecond); w.Write([]byte{1}); w.Close() }()
	}
	_ = gateW
	var res runner.Result
	notReached := false
	if kind == "at-tracer-step" {
		// a program that never ends reaches only finitely many tracer steps: if step k does not come, end the run ourselves
		go func() {
			time.Sleep(1500 * time.Millisecond)
			if ctx.Err() == nil {
				notReached = true
				cancel()
			}
		}()
	}
	returned := withTimeout(horizon, func() { res = t.Trace(ctx) })
	if kind == "at-tracer-step" && returned && (ctx.Err() == nil || notReached) {
		x.Outcome("instant-not-reached:" + statusName(res.Status))
		return
	}
	x.Note("result", fmt.Sprintf("%s exit=%d %q returned=%v", statusName(res.Status), res.ExitStatus, res.Error, returned))
	cls := kind
	if landed {
		cls += "+kill-landed"
	}
	if ban {
		cls += "+ban"
	}
	if readPath {
		cls += "+path-policy"
	}
	c11judge(x, "tracer", cls, prog, res, returned, nonce)
	x.Distinct(fmt.Sprint("tracer", instant, prog, withSync, res.Status))
	x.Outcome("tracer:" + statusName(res.Status))
}

func c11unshare(x *mc.X) {
	kind := x.Pick("instant", "before-run", "inside-callback", "while-running")
	prog := x.Pick("program", "pause", "exit")
	if x.Dry() {
		return
	}
	if kind == "while-running" && prog == "exit" {
		x.Outcome("n/a")
		return
	}
	nonce := newNonce()
	argv := []string{"/probe/burn", "pause", nonce}
	if prog == "exit" {
		argv = []string{"/probe/burn", "exit", "7", nonce}
	}
	ctx, cancel := context.WithCancel(context.Background())
	defer cancel()
	if kind == "before-run" {
		cancel()
	}
	var res runner.Result
	returned := withTimeout(horizon, func() {
		res = runUnshare(ctx, argv, func(r *unshare.Runner) {
			r.SyncFunc = func(pid int) error {
				switch kind {
				case "inside-callback":
					cancel()
				case "while-running":
					go func() {
						// cancel once the program has provably been exec'ed
						waitUntil(horizon, func() bool {
							b, _ := os.ReadFile(fmt.Sprintf("/proc/%d/cmdline", pid))
							return strings.Contains(string(b), nonce)
						})
						cancel()
					}()
				}
				return nil
			}
		})
	})
	x.Note("result", fmt.Sprintf("%s exit=%d %q returned=%v", statusName(res.Status), res.ExitStatus, res.Error, returned))
	c11judge(x, "unshare", kind, prog, res, returned, nonce)
	x.Distinct(fmt.Sprint("unshare", kind, prog, res.Status))
	x.Outcome("unshare:" + statusName(res.Status))
}

func c11destroy(x *mc.X) {
	ops := []string{"execve-pause", "execve-exit", "open", "ping"}
	op := ops[x.Choose(len(ops), "in-flight")]
	points := []c11point{
		{"host-send-pre", "H", container.VPHostSendPre, -1, false}, {"host-send-post", "H", container.VPHostSendPost, -1, false}, {"host-recv", "H", container.VPHostRecv, -1, false},
		{"host-select", "H", container.VPHostSelect, -1, false}, {"container-dispatch", "C", container.VPContDispatch, -1, false},
		{"container-reply-withheld", "C", container.VPContSendPre, -1, false}, {"container-started", "C", container.VPContStarted, -1, false},
		{"container-select", "C", container.VPContSelect, -1, false}, {"after-cancel-kill-sent", "C", container.VPContBrKill, -1, false},
	}
	pt := points[x.Choose(len(points), "instant")]
	x.Note("destroy", fmt.Sprintf("%s in flight, %s", op, pt.name))
	if x.Dry() {
		return
	}
	if (op == "open" || op == "ping") && (pt.name == "host-select" || pt.name == "container-started" || pt.name == "container-select" || pt.name == "after-cancel-kill-sent") {
		x.Outcome("n/a:point-does-not-occur-in-this-operation")
		return
	}
	env, err := c10build()
	if err != nil {
		x.Failf("C11/harness", "%v", err)
		return
	}
	nonce := newNonce()
	var initPid int
	ctx, cancel := context.WithCancel(context.Background())
	defer cancel()
	h := env.ctl.Hold(pt.side, pt.id, pt.arg)
	callDone := make(chan string, 1)
	go func() {
		switch op {
		case "execve-pause", "execve-exit":
			argv := []string{"/probe/burn", "pause", nonce}
			if op == "execve-exit" {
				argv = []string{"/probe/burn", "exit", "7", nonce}
			}
			p := execveParam(argv)
			p.SyncFunc = func(pid int) error { initPid = ppidOf(pid); return nil }
			if pt.name == "after-cancel-kill-sent" {
				go func() {
					if _, ok := env.ctl.WaitEvent(0, "C", container.VPContSelect, -1, horizon); ok {
						cancel()
					}
				}()
			}
			res := env.c.Execve(ctx, p)
			callDone <- fmt.Sprintf("%s %q", statusName(res.Status), res.Error)
		case "open":
			res, err := env.c.Open([]container.OpenCmd{{Path: "/w/f", Flag: os.O_CREATE | os.O_WRONLY, Perm: 0644}})
			for _, r := range res {
				if r.File != nil {
					r.File.Close()
				}
			}
			callDone <- fmt.Sprint(err)
		case "ping":
			callDone <- fmt.Sprint(env.c.Ping())
		}
	}()
	parked := h.WaitParked(3 * time.Second)
	if !parked {
		// this point does not occur in this operation: let it finish, nothing to pin
		h.Release()
		select {
		case <-callDone:
		case <-time.After(horizon):
		}
		cancel()
		env.close()
		x.Outcome("instant-not-reached")
		return
	}
	destroyDone := make(chan error, 1)
	go func() { destroyDone <- env.c.Destroy() }()
	time.Sleep(30 * time.Millisecond) // Destroy closes the socket first; then the held side is let go
	h.Release()
	ctxs := fmt.Sprintf("Destroy while %s is in flight (%s)", op, pt.name)
	said := ""
	select {
	case said = <-callDone:
	case <-time.After(horizon):
		x.Failf("C11/destroy/call-hangs/"+pt.name, "%s: the in-flight call did not return", ctxs)
	}
	select {
	case <-destroyDone:
	case <-time.After(horizon):
		x.Failf("C11/destroy/destroy-hangs/"+pt.name, "%s: Destroy did not return", ctxs)
	}
	x.Note("call-said", said)
	cancel()
	container.VerifHook = nil
	env.ctl.Close()
	if !waitUntil(horizon, func() bool { return len(scanNonce(nonce)) == 0 }) {
		x.Failf("C11/destroy/process-survives/"+pt.name, "%s: program processes %v survive", ctxs, scanNonce(nonce))
		killNonce(nonce)
	}
	if initPid > 0 && !waitUntil(horizon, func() bool { return !pidAlive(initPid) }) {
		x.Failf("C11/destroy/init-survives/"+pt.name, "%s: container init %d is still alive", ctxs, initPid)
		syscall.Kill(initPid, syscall.SIGKILL)
	}
	x.Distinct(fmt.Sprint("destroy", op, pt.name, said != ""))
	x.Outcome("destroy:returned=" + fmt.Sprint(said != ""))
}

func ppidOf(pid int) int {
	b, err := os.ReadFile(fmt.Sprintf("/proc/%d/stat", pid))
	if err != nil {
		return 0
	}
	s := string(b)
	i := strings.LastIndex(s, ") ")
	if i < 0 {
		return 0
	}
	f := strings.Fields(s[i+2:])
	if len(f) < 2 {
		return 0
	}
	var p int
	fmt.Sscan(f[1], &p)
	return p
}
