package main

import (
	"context"
	"fmt"
	"os"
	"path/filepath"
	"strings"
	"sync"
	"syscall"
	"time"

	"github.com/criyle/go-sandbox/pkg/forkexec"
	"github.com/criyle/go-sandbox/pkg/seccomp"
	"github.com/criyle/go-sandbox/pkg/seccomp/libseccomp"
	"github.com/criyle/go-sandbox/ptracer"
	"github.com/criyle/go-sandbox/runner"
	"github.com/criyle/go-sandbox/runner/ptrace"
	"verif/mc"
)

// C15 — a sandboxed program cannot make the runner itself fail.

type c15sys struct {
	name          string
	nr            int
	dirfd, path   int // argument index of the dirfd (-1 none) and of the path
	dirfd2, path2 int // second pair (-1 none)
	how           int // argument index of the open_how pointer (-1 none)
}

var c15syscalls = []c15sys{
	{"open", 2, -1, 0, -1, -1, -1}, {"openat", 257, 0, 1, -1, -1, -1}, {"openat2", 437, 0, 1, -1, -1, 2},
	{"readlink", 89, -1, 0, -1, -1, -1}, {"readlinkat", 267, 0, 1, -1, -1, -1},
	{"unlink", 87, -1, 0, -1, -1, -1}, {"unlinkat", 263, 0, 1, -1, -1, -1},
	{"mkdirat", 258, 0, 1, -1, -1, -1}, {"mknodat", 259, 0, 1, -1, -1, -1}, {"symlinkat", 266, 1, 2, -1, 0, -1}, {"fchmodat", 268, 0, 1, -1, -1, -1},
	{"linkat", 265, 0, 1, 2, 3, -1}, {"renameat", 264, 0, 1, 2, 3, -1}, {"renameat2", 316, 0, 1, 2, 3, -1},
	{"access", 21, -1, 0, -1, -1, -1}, {"faccessat", 269, 0, 1, -1, -1, -1}, {"faccessat2", 439, 0, 1, -1, -1, -1},
	{"stat", 4, -1, 0, -1, -1, -1}, {"lstat", 6, -1, 0, -1, -1, -1}, {"statx", 332, 0, 1, -1, -1, -1}, {"newfstatat", 262, 0, 1, -1, -1, -1},
	{"execve", 59, -1, 0, -1, -1, -1}, {"execveat", 322, 0, 1, -1, -1, -1}, {"chmod", 90, -1, 0, -1, -1, -1}, {"rename", 82, -1, 0, -1, 1, -1},
}

var (
	c15filterOnce sync.Once
	c15filter     seccomp.Filter
)

func c15Filter() seccomp.Filter {
	c15filterOnce.Do(func() {
		var trace []string
		seen := map[string]bool{}
		for _, s := range c15syscalls {
			if !seen[s.name] {
				trace = append(trace, s.name)
				seen[s.name] = true
			}
		}
		c15filter = mustFilter(
			[]string{"read", "write", "mmap", "mprotect", "munmap", "exit", "exit_group", "clone", "fork", "vfork", "wait4", "nanosleep", "getpid", "gettid", "chdir", "close", "restart_syscall"},
			trace, libseccomp.ActionTrace)
	})
	return c15filter
}

type banAll struct{}

func (banAll) CheckRead(string) ptracer.TraceAction    { return ptracer.TraceBan }
func (banAll) CheckWrite(string) ptracer.TraceAction   { return ptracer.TraceBan }
func (banAll) CheckStat(string) ptracer.TraceAction    { return ptracer.TraceBan }
func (banAll) CheckSyscall(string) ptracer.TraceAction { return ptracer.TraceBan }

var c15verdicts = map[runner.Status]bool{runner.StatusNormal: true, runner.StatusNonzeroExitStatus: true, runner.StatusSignalled: true, runner.StatusTimeLimitExceeded: true,
	runner.StatusMemoryLimitExceeded: true, runner.StatusOutputLimitExceeded: true, runner.StatusDisallowedSyscall: true}

func c15runScript(script string, h ptrace.Handler) (runner.Result, bool) {
	dir := tmpDir("c15")
	defer os.RemoveAll(dir)
	sf, _ := os.CreateTemp(dir, "script")
	sf.WriteString(script)
	sf.Seek(0, 0)
	defer sf.Close()
	lf, _ := os.Create(filepath.Join(dir, "log"))
	defer lf.Close()
	var res runner.Result
	returned := withTimeout(horizon, func() {
		ctx, cancel := context.WithTimeout(context.Background(), 30*time.Second)
		defer cancel()
		res = runPtrace(ctx, []string{probe("sysrun")}, func(r *ptrace.Runner) {
			r.Files = []uintptr{sf.Fd(), lf.Fd(), devnull()}
			r.Seccomp = c15Filter()
			r.Handler = h
			r.WorkDir = dir
		})
	})
	return res, returned
}

func init() {
	registry["C15"] = func(tier string) *mc.Spec {
		ptrs := []string{"@null", "@unmapped", "@kernel", "@odd", "$0", "@nonul4095", "@nonul4096", "@nonul4097", "@nonul8192", "@edge$1", "@cross$1"}
		dirfds := []string{"-100", "0xdeadbeef00000063"}
		if tier == "thorough" {
			dirfds = append(dirfds, "-1", "99", "0x00000000ffffff9c")
		}
		spec := &mc.Spec{
			Level: "exploration",
			Rule: "family 0: every traced path syscall × pointer kind for each path argument (NULL, unmapped, kernel half, odd, short string, 4095/4096/4097/8192 bytes without NUL, string ending exactly at / crossing into a PROT_NONE page) × dirfd encoding × {soft-ban-all, allow-all} policy, one operation per run; " +
				"family 1: syscall numbers unknown / negative / with the x32 bit / above 2^32, and unreadable or short open_how; family 2: a fork+thread program where the main process, the child or the thread is SIGKILLed at the k-th tracer step (every Debug call index). " +
				"Oracle: the result is a verdict about the program, never Runner Error, and the run returns within the horizon. distinct = (case, observed status)",
			Bound:       map[string]any{"pointer_kinds": ptrs, "dirfds": dirfds, "syscalls": len(c15syscalls)},
			Assumptions: []string{"kill instants are exhaustive at tracer-step granularity (each Debug call of the tracer loop), not at instruction granularity"},
			SplitDepth:  2,
			Workers:     4,
			Horizon:     60 * time.Second,
		}
		spec.Init = func() error { devnull(); return nil }
		spec.Fini = cleanupTmp
		spec.Body = func(x *mc.X) {
			switch x.Choose(3, "family") {
			case 0:
				s := c15syscalls[x.Choose(len(c15syscalls), "syscall")]
				p1 := ptrs[x.Choose(len(ptrs), "ptr")]
				p2 := "$0"
				if s.path2 >= 0 {
					p2 = ptrs[x.Choose(len(ptrs), "ptr2")]
				}
				d := "-100"
				if s.dirfd >= 0 {
					d = dirfds[x.Choose(len(dirfds), "dirfd")]
				}
				allow := x.Bool("allow-all")
				args := [6]string{"0", "0", "0", "0", "0", "0"}
				if s.dirfd >= 0 {
					args[s.dirfd] = d
				}
				if s.dirfd2 >= 0 {
					args[s.dirfd2] = d
				}
				args[s.path] = p1
				if s.path2 >= 0 {
					args[s.path2] = p2
				}
				if s.how >= 0 {
					args[s.how] = "@how0/0/0"
					args[s.how+1] = "24"
				}
				line := fmt.Sprintf("X %d %s", s.nr, strings.Join(args[:], " "))
				x.Note("case", fmt.Sprintf("%s: %s (policy: %s)", s.name, line, map[bool]string{true: "allow all", false: "soft-ban all"}[allow]))
				if x.Dry() {
					return
				}
				c15one(x, "arg/"+s.name, "S a\nS some/relative/name\n"+line+"\nQ 0\n", allow, fmt.Sprint(s.name, p1, p2, d, allow))
			case 1:
				cases := []string{"X 999", "X -1", "X -2", "X 0x40000002 0 0 0", "X 0x40000101 -100 $0 0", "X 0x100000002 $0 0 0", "X 0xffffffff00000101 -100 $0 0",
					"X 437 -100 $0 @howbad 24", "X 437 -100 $0 @howshort 24", "X 437 -100 $0 @null 24", "X 437 -100 $0 @how0x40/0/0 8", "X 437 -100 $0 @kernel 24"}
				line := cases[x.Choose(len(cases), "case")]
				allow := x.Bool("allow-all")
				x.Note("case", line)
				if x.Dry() {
					return
				}
				c15one(x, "nr-or-how", "S a\n"+line+"\nQ 0\n", allow, fmt.Sprint(line, allow))
			case 2:
				c15kill(x, tier)
			}
		}
		return spec
	}
}

func c15one(x *mc.X, class, script string, allow bool, key string) {
	var h ptrace.Handler = banAll{}
	if allow {
		h = allowHandler{}
	}
	res, returned := c15runScript(script, h)
	if !returned {
		x.Failf("C15/"+class+"/tracer-stuck", "%s: the run did not return within the horizon", strings.Split(script, "\n")[len(strings.Split(script, "\n"))-3])
		x.Outcome("stuck")
		return
	}
	x.Note("result", fmt.Sprintf("%s %q", statusName(res.Status), res.Error))
	x.Distinct(key + statusName(res.Status))
	x.Outcome(statusName(res.Status))
	if !c15verdicts[res.Status] {
		errClass := res.Error
		if strings.Contains(errClass, "slice bounds") {
			errClass = "panic: slice bounds out of range"
		}
		x.Failf(fmt.Sprintf("C15/%s/%s:%s", class, statusName(res.Status), errClass), "script %q: result %s %q is not a verdict about the program", script, statusName(res.Status), res.Error)
	}
}

// c15killer is a tracer Handler that SIGKILLs a victim at the k-th Debug call.
type c15killer struct {
	k, n   int
	victim string // main | last
	main   int
	last   int
	killed bool
}

func (h *c15killer) Handle(c *ptracer.Context) ptracer.TraceAction {
	nr := c.SyscallNo()
	if nr == 21 { // access: soft-ban, like the file policy would
		c.SetReturnValue(-int(syscall.EACCES))
		return ptracer.TraceBan
	}
	return ptracer.TraceAllow
}

func (h *c15killer) Debug(v ...interface{}) {
	if len(v) >= 2 {
		if s, ok := v[0].(string); ok {
			if p, ok := v[1].(int); ok {
				if strings.HasPrefix(s, "tracer started") {
					h.main = p
					h.last = p
				} else if strings.HasPrefix(s, "------") {
					h.last = p
				}
			}
		}
	}
	if h.n == h.k && !h.killed {
		h.killed = true
		pid := h.main
		if h.victim == "last" {
			pid = h.last
		}
		if pid > 0 {
			syscall.Kill(pid, syscall.SIGKILL)
		}
	}
	h.n++
}

const c15killScript = "S a\nF\nX 21 $0 0\nX 39\nE\nT\nX 21 $0 0\nE\nX 21 $0 0\nW\nJ\nX 21 $0 0\nQ 0\n"

func c15kill(x *mc.X, tier string) {
	victim := x.Pick("victim", "main", "last")
	// number of tracer steps of the undisturbed run is measured first (free run with k = -1)
	steps := 60
	k := x.Choose(steps, "step")
	x.Note("case", fmt.Sprintf("SIGKILL %s process at tracer step %d", victim, k))
	if x.Dry() {
		return
	}
	dir := tmpDir("c15k")
	defer os.RemoveAll(dir)
	sf, _ := os.CreateTemp(dir, "script")
	sf.WriteString(c15killScript)
	sf.Seek(0, 0)
	defer sf.Close()
	h := &c15killer{k: k, victim: victim}
	ch := &forkexec.Runner{Args: []string{probe("sysrun")}, Env: []string{}, Files: []uintptr{sf.Fd(), devnull(), devnull()},
		Seccomp: c15Filter().SockFprog(), Ptrace: true, UnshareCgroupAfterSync: true}
	t := ptracer.Tracer{Handler: h, Runner: ch, Limit: bigLimit}
	var res runner.Result
	returned := withTimeout(horizon, func() {
		ctx, cancel := context.WithTimeout(context.Background(), 30*time.Second)
		defer cancel()
		res = t.Trace(ctx)
	})
	if !returned {
		x.Failf("C15/kill/tracer-stuck", "SIGKILL of %s at step %d: Trace did not return within the horizon", victim, k)
		x.Outcome("stuck")
		return
	}
	x.Note("result", fmt.Sprintf("%s %q (tracer steps seen %d, killed %v)", statusName(res.Status), res.Error, h.n, h.killed))
	x.Distinct(fmt.Sprint("kill", victim, k, res.Status))
	if !h.killed {
		x.Outcome("kill-step-beyond-run:" + statusName(res.Status))
	} else {
		x.Outcome("killed:" + statusName(res.Status))
	}
	if !c15verdicts[res.Status] {
		x.Failf(fmt.Sprintf("C15/kill/%s:%s", statusName(res.Status), res.Error), "SIGKILL of %s process at tracer step %d: result %s %q is not a verdict about the program", victim, k, statusName(res.Status), res.Error)
	}
}
