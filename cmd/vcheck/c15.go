package main

import (
	"context"
	"encoding/json"
	"fmt"
	"os"
	"os/exec"
	"path/filepath"
	"runtime/debug"
	"strings"
	"sync"
	"syscall"
	"time"

	"github.com/criyle/go-sandbox/pkg/forkexec"
	"github.com/criyle/go-sandbox/pkg/seccomp"
	"github.com/criyle/go-sandbox/pkg/seccomp/libseccomp"
	"github.com/criyle/go-sandbox/ptracer"
	"github.com/criyle/go-sandbox/runner"
	"github.com/criyle/go-sandbox/runner/ptrace"
	"verif/mc"
)

// C15 — a sandboxed program cannot make the runner itself fail.

type c15sys struct {
	name          string
	nr            int
	dirfd, path   int // argument index of the dirfd (-1 none) and of the path
	dirfd2, path2 int // second pair (-1 none)
	how           int // argument index of the open_how pointer (-1 none)
}

var c15syscalls = []c15sys{
	{"open", 2, -1, 0, -1, -1, -1}, {"openat", 257, 0, 1, -1, -1, -1}, {"openat2", 437, 0, 1, -1, -1, 2},
	{"readlink", 89, -1, 0, -1, -1, -1}, {"readlinkat", 267, 0, 1, -1, -1, -1},
	{"unlink", 87, -1, 0, -1, -1, -1}, {"unlinkat", 263, 0, 1, -1, -1, -1},
	{"mkdirat", 258, 0, 1, -1, -1, -1}, {"mknodat", 259, 0, 1, -1, -1, -1}, {"symlinkat", 266, 1, 2, -1, 0, -1}, {"fchmodat", 268, 0, 1, -1, -1, -1},
	{"linkat", 265, 0, 1, 2, 3, -1}, {"renameat", 264, 0, 1, 2, 3, -1}, {"renameat2", 316, 0, 1, 2, 3, -1},
	{"access", 21, -1, 0, -1, -1, -1}, {"faccessat", 269, 0, 1, -1, -1, -1}, {"faccessat2", 439, 0, 1, -1, -1, -1},
	{"stat", 4, -1, 0, -1, -1, -1}, {"lstat", 6, -1, 0, -1, -1, -1}, {"statx", 332, 0, 1, -1, -1, -1}, {"newfstatat", 262, 0, 1, -1, -1, -1},
	{"execve", 59, -1, 0, -1, -1, -1}, {"execveat", 322, 0, 1, -1, -1, -1}, {"chmod", 90, -1, 0, -1, -1, -1}, {"rename", 82, -1, 0, -1, 1, -1},
}

var (
	c15filterOnce sync.Once
	c15filter     seccomp.Filter
)

func c15Filter() seccomp.Filter {
	c15filterOnce.Do(func() {
		var trace []string
		seen := map[string]bool{}
		for _, s := range c15syscalls {
			if !seen[s.name] {
				trace = append(trace, s.name)
				seen[s.name] = true
			}
		}
		c15filter = mustFilter(
			[]string{"read", "write", "mmap", "mprotect", "munmap", "exit", "exit_group", "clone", "fork", "vfork", "wait4", "nanosleep", "getpid", "gettid", "chdir", "close", "restart_syscall"},
			trace, libseccomp.ActionTrace)
	})
	return c15filter
}

type banAll struct{}

func (banAll) CheckRead(string) ptracer.TraceAction    { return ptracer.TraceBan }
func (banAll) CheckWrite(string) ptracer.TraceAction   { return ptracer.TraceBan }
func (banAll) CheckStat(string) ptracer.TraceAction    { return ptracer.TraceBan }
func (banAll) CheckSyscall(string) ptracer.TraceAction { return ptracer.TraceBan }

var c15verdicts = map[runner.Status]bool{runner.StatusNormal: true, runner.StatusNonzeroExitStatus: true, runner.StatusSignalled: true, runner.StatusTimeLimitExceeded: true,
	runner.StatusMemoryLimitExceeded: true, runner.StatusOutputLimitExceeded: true, runner.StatusDisallowedSyscall: true}

func c15runScript(script string, h ptrace.Handler) (runner.Result, bool) {
	dir := tmpDir("c15")
	defer os.RemoveAll(dir)
	sf, _ := os.CreateTemp(dir, "script")
	sf.WriteString(script)
	sf.Seek(0, 0)
	defer sf.Close()
	lf, _ := os.Create(filepath.Join(dir, "log"))
	defer lf.Close()
	var res runner.Result
	returned := withTimeout(horizon, func() {
		ctx, cancel := context.WithTimeout(context.Background(), 30*time.Second)
		defer cancel()
		res = runPtrace(ctx, []string{probe("sysrun")}, func(r *ptrace.Runner) {
			r.Files = []uintptr{sf.Fd(), lf.Fd(), devnull()}
			r.Seccomp = c15Filter()
			r.Handler = h
			r.WorkDir = dir
		})
	})
	return res, returned
}

func init() {
	registry["C15"] = func(tier string) *mc.Spec {
		ptrs := []string{"@null", "@unmapped", "@kernel", "@odd", "$0", "@nonul4095", "@nonul4096", "@nonul4097", "@nonul8192", "@edge$1", "@cross$1"}
		dirfds := []string{"-100", "0xdeadbeef00000063"}
		if tier == "thorough" {
			dirfds = append(dirfds, "-1", "99", "0x00000000ffffff9c")
		}
		spec := &mc.Spec{
			Level: "exploration",
			Rule: "family 0: every traced path syscall × pointer kind for each path argument (NULL, unmapped, kernel half, odd, short string, 4095/4096/4097/8192 bytes without NUL, string ending exactly at / crossing into a PROT_NONE page) × dirfd encoding × {soft-ban-all, allow-all} policy, one operation per run; " +
				"family 1: syscall numbers unknown / negative / with the x32 bit / above 2^32, every number 320…480 (the end of the library's name table, the first numbers without a name), and unreadable or short open_how, every declared open_how size around the field boundaries, open flag words with both access-mode bits / all bits / garbage above bit 31; family 2: a fork+thread program where the main process, the child or the thread is SIGKILLed at the k-th tracer step (every Debug call index); family 3: symbolic-link shapes in the work directory (self loop, 2- and 3-cycles, a cycle entered through a directory link, chains of 39/40/41/64 links, '.'-link nesting, a 4000-byte target) × path syscalls (following, non-following, two-path, exec) × policy, the tracer running in a helper process with a 64 MiB stack cap so that its death is observed; family 4: pathname pointers whose VALUE lies in the tracing process's own heap (freed span, live object, one past it, unused arena), stack or data segment × 5 path-call shapes × policy, with a complete garbage collection placed (verif point) inside every read of tracee memory, while the request holds that value. " +
				"Oracle: the result is a verdict about the program, never Runner Error, and the run returns within the horizon. distinct = (case, observed status)",
			Bound:       map[string]any{"pointer_kinds": ptrs, "dirfds": dirfds, "syscalls": len(c15syscalls)},
			Assumptions: []string{"kill instants are exhaustive at tracer-step granularity (each Debug call of the tracer loop), not at instruction granularity"},
			SplitDepth:  2,
			Workers:     4,
			Horizon:     60 * time.Second,
		}
		spec.Init = func() error { devnull(); return nil }
		spec.Fini = cleanupTmp
		spec.Body = func(x *mc.X) {
			switch x.Choose(5, "family") {
			case 4:
				c15gc(x)
			case 3:
				c15links(x)
			case 0:
				s := c15syscalls[x.Choose(len(c15syscalls), "syscall")]
				p1 := ptrs[x.Choose(len(ptrs), "ptr")]
				p2 := "$0"
				if s.path2 >= 0 {
					p2 = ptrs[x.Choose(len(ptrs), "ptr2")]
				}
				d := "-100"
				if s.dirfd >= 0 {
					d = dirfds[x.Choose(len(dirfds), "dirfd")]
				}
				allow := x.Bool("allow-all")
				args := [6]string{"0", "0", "0", "0", "0", "0"}
				if s.dirfd >= 0 {
					args[s.dirfd] = d
				}
				if s.dirfd2 >= 0 {
					args[s.dirfd2] = d
				}
				args[s.path] = p1
				if s.path2 >= 0 {
					args[s.path2] = p2
				}
				if s.how >= 0 {
					args[s.how] = "@how0/0/0"
					args[s.how+1] = "24"
				}
				line := fmt.Sprintf("X %d %s", s.nr, strings.Join(args[:], " "))
				x.Note("case", fmt.Sprintf("%s: %s (policy: %s)", s.name, line, map[bool]string{true: "allow all", false: "soft-ban all"}[allow]))
				if x.Dry() {
					return
				}
				c15one(x, "arg/"+s.name, "S a\nS some/relative/name\n"+line+"\nQ 0\n", allow, fmt.Sprint(s.name, p1, p2, d, allow))
			case 1:
				cases := []string{"X 999", "X -1", "X -2", "X 0x40000002 0 0 0", "X 0x40000101 -100 $0 0", "X 0x100000002 $0 0 0", "X 0xffffffff00000101 -100 $0 0",
					"X 437 -100 $0 @howbad 24", "X 437 -100 $0 @howshort 24", "X 437 -100 $0 @null 24", "X 437 -100 $0 @how0x40/0/0 8", "X 437 -100 $0 @kernel 24"}
				// every declared size of the open_how structure around its fields (flags 0..8, mode 8..16, resolve 16..24) and beyond
				for _, sz := range []string{"0", "1", "4", "7", "9", "16", "23", "25", "4096", "-1", "0x100000018"} {
					cases = append(cases, "X 437 -100 $0 @how0/0/0 "+sz, "X 437 -100 $0 @how0x241/0644/0 "+sz)
				}
				cases = append(cases, "X 437 -100 $0 @howshort 4", "X 437 -100 $0 @howshort 0")
				// open flag words: both access-mode bits set (legal: descriptor for ioctl only), every bit set, garbage above bit 31
				for _, fl := range []string{"3", "0x80003", "0x200003", "0x7fffffff", "0xffffffff", "0xdeadbeef00000003", "-1"} {
					cases = append(cases, "X 2 $0 "+fl+" 0", "X 257 -100 $0 "+fl+" 0", "X 437 -100 $0 @how"+fl+"/0/0 24")
				}
				// every number around the end of the syscall-name table of the library (the last names, the first numbers
				// without a name, the hole below 424): a number without a name is the program's business, not the runner's
				for nr := 320; nr <= 480; nr++ {
					cases = append(cases, fmt.Sprintf("X %d 0 0 0 0", nr))
				}
				line := cases[x.Choose(len(cases), "case")]
				allow := x.Bool("allow-all")
				x.Note("case", line)
				if x.Dry() {
					return
				}
				c15one(x, "nr-or-how", "S a\n"+line+"\nQ 0\n", allow, fmt.Sprint(line, allow))
			case 2:
				c15kill(x, tier)
			}
		}
		return spec
	}
}

func c15one(x *mc.X, class, script string, allow bool, key string) {
	var h ptrace.Handler = banAll{}
	if allow {
		h = allowHandler{}
	}
	res, returned := c15runScript(script, h)
	if !returned {
		x.Failf("C15/"+class+"/tracer-stuck", "%s: the run did not return within the horizon", strings.Split(script, "\n")[len(strings.Split(script, "\n"))-3])
		x.Outcome("stuck")
		return
	}
	x.Note("result", fmt.Sprintf("%s %q", statusName(res.Status), res.Error))
	x.Distinct(key + statusName(res.Status))
	x.Outcome(statusName(res.Status))
	if !c15verdicts[res.Status] {
		errClass := res.Error
		if strings.Contains(errClass, "slice bounds") {
			errClass = "panic: slice bounds out of range"
		}
		x.Failf(fmt.Sprintf("C15/%s/%s:%s", class, statusName(res.Status), errClass), "script %q: result %s %q is not a verdict about the program", script, statusName(res.Status), res.Error)
	}
}

// c15killer is a tracer Handler that SIGKILLs a victim at the k-th Debug call.
type c15killer struct {
	k, n   int
	victim string // main | last
	main   int
	last   int
	killed bool
}

func (h *c15killer) Handle(c *ptracer.Context) ptracer.TraceAction {
	nr := c.SyscallNo()
	if nr == 21 { // access: soft-ban, like the file policy would
		c.SetReturnValue(-int(syscall.EACCES))
		return ptracer.TraceBan
	}
	return ptracer.TraceAllow
}

func (h *c15killer) Debug(v ...interface{}) {
	if len(v) >= 2 {
		if s, ok := v[0].(string); ok {
			if p, ok := v[1].(int); ok {
				if strings.HasPrefix(s, "tracer started") {
					h.main = p
					h.last = p
				} else if strings.HasPrefix(s, "------") {
					h.last = p
				}
			}
		}
	}
	if h.n == h.k && !h.killed {
		h.killed = true
		pid := h.main
		if h.victim == "last" {
			pid = h.last
		}
		if pid > 0 {
			syscall.Kill(pid, syscall.SIGKILL)
		}
	}
	h.n++
}

const c15killScript = "S a\nF\nX 21 $0 0\nX 39\nE\nT\nX 21 $0 0\nE\nX 21 $0 0\nW\nJ\nX 21 $0 0\nQ 0\n"

func c15kill(x *mc.X, tier string) {
	victim := x.Pick("victim", "main", "last")
	// number of tracer steps of the undisturbed run is measured first (free run with k = -1)
	steps := 60
	k := x.Choose(steps, "step")
	x.Note("case", fmt.Sprintf("SIGKILL %s process at tracer step %d", victim, k))
	if x.Dry() {
		return
	}
	dir := tmpDir("c15k")
	defer os.RemoveAll(dir)
	sf, _ := os.CreateTemp(dir, "script")
	sf.WriteString(c15killScript)
	sf.Seek(0, 0)
	defer sf.Close()
	h := &c15killer{k: k, victim: victim}
	ch := &forkexec.Runner{Args: []string{probe("sysrun")}, Env: []string{}, Files: []uintptr{sf.Fd(), devnull(), devnull()},
		Seccomp: c15Filter().SockFprog(), Ptrace: true, UnshareCgroupAfterSync: true}
	t := ptracer.Tracer{Handler: h, Runner: ch, Limit: bigLimit}
	var res runner.Result
	returned := withTimeout(horizon, func() {
		ctx, cancel := context.WithTimeout(context.Background(), 30*time.Second)
		defer cancel()
		res = t.Trace(ctx)
	})
	if !returned {
		x.Failf("C15/kill/tracer-stuck", "SIGKILL of %s at step %d: Trace did not return within the horizon", victim, k)
		x.Outcome("stuck")
		return
	}
	x.Note("result", fmt.Sprintf("%s %q (tracer steps seen %d, killed %v)", statusName(res.Status), res.Error, h.n, h.killed))
	x.Distinct(fmt.Sprint("kill", victim, k, res.Status))
	if !h.killed {
		x.Outcome("kill-step-beyond-run:" + statusName(res.Status))
	} else {
		x.Outcome("killed:" + statusName(res.Status))
	}
	if !c15verdicts[res.Status] {
		x.Failf(fmt.Sprintf("C15/kill/%s:%s", statusName(res.Status), res.Error), "SIGKILL of %s process at tracer step %d: result %s %q is not a verdict about the program", victim, k, statusName(res.Status), res.Error)
	}
}

// ---- family 3: symbolic-link shapes ---------------------------------------------------------------------------

type c15shape struct {
	name string
	make func(dir string)
	path string // the name the program uses (relative to the work dir)
}

var c15shapes = []c15shape{
	{"self-loop", func(d string) { os.Symlink("loop", d+"/loop") }, "loop"},
	{"two-cycle", func(d string) { os.Symlink("y", d+"/x"); os.Symlink("x", d+"/y") }, "x"},
	{"three-cycle-absolute", func(d string) { os.Symlink(d+"/q", d+"/p"); os.Symlink("r", d+"/q"); os.Symlink(d+"/p", d+"/r") }, "p"},
	{"cycle-below-directory-link", func(d string) {
		os.Mkdir(d+"/dir", 0755)
		os.Symlink("dir", d+"/dl")
		os.Symlink("../dl/c2", d+"/dir/c1")
		os.Symlink("c1", d+"/dir/c2")
	}, "dl/c1/leaf"},
	{"chain-39", func(d string) { c15chain(d, 39) }, "c0"},
	{"chain-40", func(d string) { c15chain(d, 40) }, "c0"},
	{"chain-41", func(d string) { c15chain(d, 41) }, "c0"},
	{"chain-64", func(d string) { c15chain(d, 64) }, "c0"},
	{"dot-link-nesting", func(d string) { os.Symlink(".", d+"/self"); os.WriteFile(d+"/file", []byte("x"), 0644) }, strings.Repeat("self/", 60) + "file"},
	{"parent-link-nesting", func(d string) {
		os.Mkdir(d+"/sub", 0755)
		os.Symlink("..", d+"/sub/up")
		os.WriteFile(d+"/file", []byte("x"), 0644)
	}, strings.Repeat("sub/up/", 45) + "file"},
	{"target-4000-bytes", func(d string) { os.Symlink(strings.Repeat("a/", 1999)+"zz", d+"/long") }, "long"},
	{"dangling-into-cycle", func(d string) { os.Symlink("nowhere/../m2", d+"/m1"); os.Symlink("m1", d+"/m2") }, "m2"},
}

func c15chain(d string, n int) {
	os.WriteFile(fmt.Sprintf("%s/c%d", d, n), []byte("end"), 0644)
	for i := 0; i < n; i++ {
		os.Symlink(fmt.Sprintf("c%d", i+1), fmt.Sprintf("%s/c%d", d, i))
	}
}

var c15linkCalls = []struct{ name, line string }{
	{"open", "X 2 $0 0 0"}, {"openat(O_NOFOLLOW)", "X 257 -100 $0 0x20000 0"}, {"openat(O_CREAT|O_WRONLY)", "X 257 -100 $0 0x41 0644"},
	{"stat", "X 4 $0 0"}, {"lstat", "X 6 $0 0"}, {"readlink", "X 89 $0 0 0"}, {"unlink", "X 87 $0"},
	{"rename(to)", "X 82 $1 $0"}, {"linkat(FOLLOW)", "X 265 -100 $0 -100 $1 0x400"}, {"execve", "X 59 $0 0 0"}, {"access", "X 21 $0 4"},
}

func c15links(x *mc.X) {
	sh := c15shapes[x.Choose(len(c15shapes), "shape")]
	call := c15linkCalls[x.Choose(len(c15linkCalls), "call")]
	allow := x.Bool("allow-all")
	x.Note("case", fmt.Sprintf("links %s, program calls %s on %.60q (policy: %s)", sh.name, call.name, sh.path, map[bool]string{true: "allow all", false: "soft-ban all"}[allow]))
	if x.Dry() {
		return
	}
	dir := tmpDir("c15l")
	defer os.RemoveAll(dir)
	os.Chmod(dir, 0755)
	sh.make(dir)
	script := "S " + sh.path + "\nS other-name\n" + call.line + "\nQ 0\n"
	os.WriteFile(filepath.Join(dir, ".script"), []byte(script), 0644)
	self, _ := os.Executable()
	cmd := exec.Command(self, "c15run", dir, fmt.Sprint(allow))
	var out strings.Builder
	cmd.Stdout = &out
	errf, _ := os.Create(filepath.Join(dir, ".stderr"))
	cmd.Stderr = errf
	cmd.SysProcAttr = &syscall.SysProcAttr{Setpgid: true, Pdeathsig: syscall.SIGKILL}
	var werr error
	if err := cmd.Start(); err != nil {
		x.Failf("C15/harness", "helper: %v", err)
		return
	}
	returned := withTimeout(horizon, func() { werr = cmd.Wait() })
	errf.Close()
	key := "links/" + sh.name
	if !returned {
		syscall.Kill(-cmd.Process.Pid, syscall.SIGKILL)
		cmd.Wait()
		x.Failf("C15/"+key+"/tracer-stuck", "links %s, %s: the run did not return within the horizon (the program itself only makes one system call)", sh.name, call.name)
		x.Outcome("stuck")
		return
	}
	var rep struct {
		Status int
		Error  string
	}
	if werr != nil || json.Unmarshal([]byte(out.String()), &rep) != nil {
		tail, _ := os.ReadFile(filepath.Join(dir, ".stderr"))
		first := strings.SplitN(strings.TrimSpace(string(tail)), "\n", 2)[0]
		if len(first) > 120 {
			first = first[:120]
		}
		x.Failf("C15/"+key+"/tracer-process-died", "links %s, %s: the process running the tracer ended with %v before reporting a result: %q", sh.name, call.name, werr, first)
		x.Outcome("tracer-died")
		return
	}
	st := runner.Status(rep.Status)
	x.Note("result", fmt.Sprintf("%s %q", statusName(st), rep.Error))
	x.Distinct(fmt.Sprint("links", sh.name, call.name, allow, st))
	x.Outcome("links:" + statusName(st))
	if !c15verdicts[st] {
		x.Failf(fmt.Sprintf("C15/%s/%s:%s", key, statusName(st), rep.Error), "links %s, %s: result %s %q is not a verdict about the program", sh.name, call.name, statusName(st), rep.Error)
	}
}

func init() {
	// helper role: runs the script in <dir>/.script under the real ptrace runner with <dir> as the work directory and prints the result
	aux["c15run"] = func(args []string) int {
		if len(args) < 2 {
			return 3
		}
		debug.SetMaxStack(64 << 20) // an unbounded recursion ends this helper quickly instead of eating a gigabyte first
		dir := args[0]
		var h ptrace.Handler = banAll{}
		if args[1] == "true" {
			h = allowHandler{}
		}
		sf, err := os.Open(filepath.Join(dir, ".script"))
		if err != nil {
			return 3
		}
		devnull()
		ctx, cancel := context.WithTimeout(context.Background(), 30*time.Second)
		defer cancel()
		res := runPtrace(ctx, []string{probe("sysrun")}, func(r *ptrace.Runner) {
			r.Files = []uintptr{sf.Fd(), devnull(), devnull()}
			r.Seccomp = c15Filter()
			r.Handler = h
			r.WorkDir = dir
		})
		b, _ := json.Marshal(map[string]any{"Status": int(res.Status), "Error": res.Error})
		os.Stdout.Write(b)
		return 0
	}
}
