package main

import (
	"bytes"
	"context"
	"fmt"
	"os"
	"path/filepath"
	"strings"

	"github.com/criyle/go-sandbox/container"
	"github.com/criyle/go-sandbox/pkg/mount"
	"github.com/criyle/go-sandbox/runner"
	"verif/mc"
)

// C05, family "masks the init can or cannot look at": a mask is configured for a file below a directory of a bind.
// The directory's owner / group / mode range over what is mapped into the container's user namespace and what is not —
// the init is uid 0 there, but its capabilities reach only objects whose uid AND gid are mapped, so some directories the
// PROGRAM (running under the generated credential) can enter are closed to the INIT that puts the masks in place.
// For every combination either Build refuses the configuration or the program finds nothing of the host's content at the
// masked path. (Build "succeeding" without the mask is the failure.)
const c05secret = "HOST-SECRET-c05"

var c05maskDirKinds = []struct {
	name           string
	uid, gid, mode int // -1: the generated credential's id; -2: an id without mapping; 0: root
}{
	{"root:root 0755", 0, 0, 0755},
	{"program-uid:unmapped-gid 0700", -1, -2, 0700},
	{"unmapped-uid:program-gid 0750", -2, -1, 0750},
	{"unmapped-uid:unmapped-gid 0755", -2, -2, 0755},
	{"program-uid:program-gid 0700", -1, -1, 0700},
	{"root:unmapped-gid 0711", 0, -2, 0711},
}

func c05maskReach(x *mc.X) {
	dk := c05maskDirKinds[x.Choose(len(c05maskDirKinds), "masked-file's-directory")]
	cred := x.Bool("credential-generator")
	fileOwner := x.Pick("masked-file-owner", "root", "program", "unmapped")
	x.Note("case", fmt.Sprintf("mask on a file (owner %s) below a directory %s, credential generator %v", fileOwner, dk.name, cred))
	if x.Dry() {
		return
	}
	const progID, strayID = 10001, 34567
	id := func(k int) int {
		switch k {
		case -1:
			return progID
		case -2:
			return strayID
		}
		return 0
	}
	base := tmpDir("c05m")
	defer os.RemoveAll(base)
	os.Chmod(base, 0755)
	data, priv := filepath.Join(base, "data"), filepath.Join(base, "data", "priv")
	os.MkdirAll(priv, 0755)
	os.Chmod(data, 0755)
	secret := filepath.Join(priv, "secret")
	os.WriteFile(secret, []byte(c05secret+"\n"), 0644)
	fo := map[string]int{"root": 0, "program": progID, "unmapped": strayID}[fileOwner]
	os.Chown(secret, fo, fo)
	os.Chown(priv, id(dk.uid), id(dk.gid))
	os.Chmod(priv, os.FileMode(dk.mode))
	var c container.Environment
	var err error
	c, err = newContainer(func(b *container.Builder) {
		b.Mounts = mount.NewBuilder().WithBind(binDir(), "probe", true).WithBind(data, "data", true).WithTmpfs("w", "").Mounts
		b.MaskPaths = []string{"/data/priv/secret"}
		if cred {
			b.CredGenerator = fixedCred{}
		}
	})
	key := fmt.Sprintf("%s/cred=%v/file-owner=%s", dk.name, cred, fileOwner)
	if err != nil {
		// fail closed: acceptable, whatever the wording (the init gives up on a mask it cannot put in place; depending on
		// how far it got the host sees its error text or only the closed socket)
		x.Note("build", err.Error())
		x.Distinct("m" + key + "refused")
		x.Outcome("mask-reach:build-refused")
		return
	}
	defer func() { withTimeout(horizon, func() { c.Destroy() }) }()
	pr, pw, _ := os.Pipe()
	defer pr.Close()
	p := execveParam([]string{"/probe/burn", "cat", "/data/priv/secret"})
	p.Files = []uintptr{devnull(), pw.Fd(), devnull()}
	var res runner.Result
	if !withTimeout(horizon, func() { res = c.Execve(context.Background(), p) }) {
		pw.Close()
		x.Failf("C05/harness", "mask family: the reading program did not return")
		return
	}
	pw.Close()
	var out bytes.Buffer
	out.ReadFrom(pr)
	x.Distinct("m" + key + fmt.Sprint(res.Status, out.Len()))
	x.Outcome(fmt.Sprintf("mask-reach:built:read=%d", out.Len()))
	if strings.Contains(out.String(), c05secret) {
		x.Failf("C05/container/mask-not-in-place/"+dk.name, "Build reported success with MaskPaths [/data/priv/secret] (file owner %s, directory %s, credential generator %v) and the program read the host's content there", fileOwner, dk.name, cred)
	}
}
