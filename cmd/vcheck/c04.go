package main

import (
	"context"
	"fmt"
	"os"
	"path/filepath"
	"runtime"
	"sort"
	"strings"
	"syscall"
	"time"

	"github.com/criyle/go-sandbox/container"
	"github.com/criyle/go-sandbox/pkg/forkexec"
	"github.com/criyle/go-sandbox/pkg/mount"
	"github.com/criyle/go-sandbox/pkg/rlimit"
	"github.com/criyle/go-sandbox/runner"
	"golang.org/x/sys/unix"
	"verif/mc"
)

// C04 — the program starts in exactly the requested security state, for every option set.

var nsNames = []string{"user", "pid", "mnt", "uts", "ipc", "net", "cgroup"}

func nsOf(pid string) map[string]string {
	m := map[string]string{}
	for _, n := range nsNames {
		l, err := os.Readlink("/proc/" + pid + "/ns/" + n)
		if err == nil {
			m[n] = l
		}
	}
	return m
}

type c04opts struct {
	cred, dropCaps, nnp, seccomp, sync, ucas bool
	credNoGroups                             bool
	newuser, nsgroup, pivot                  bool
	defaultMap                               bool // user namespace with the launcher's default id mapping (no UID/GIDMappings given)
	ptrace, stop                             bool
	workdir, names                           bool
	hostName, domName                        string // family "names": the names to request (default c04host / c04domain)
}

func (o c04opts) String() string {
	var s []string
	add := func(b bool, n string) {
		if b {
			s = append(s, n)
		}
	}
	add(o.cred && !o.credNoGroups, "cred")
	add(o.cred && o.credNoGroups, "cred(no groups)")
	add(o.dropCaps, "dropcaps")
	add(o.nnp, "nnp")
	add(o.seccomp, "seccomp")
	add(o.sync, "sync")
	add(o.ucas, "cgroup-after-sync")
	add(o.newuser && !o.defaultMap, "newuser")
	add(o.newuser && o.defaultMap, "newuser(default id mapping)")
	add(o.nsgroup, "ns(pid,mnt,uts,ipc,net)")
	add(o.pivot, "pivot")
	add(o.ptrace, "ptrace")
	add(o.stop, "stop-before-seccomp")
	add(o.workdir, "workdir")
	add(o.names, "host/domain")
	if len(s) == 0 {
		return "(none)"
	}
	return strings.Join(s, "+")
}

// c04launch starts report under the options and returns the report, the namespaces seen from the host, or a launch error.
func c04launch(o c04opts) (rep *report, ns map[string]string, launchErr error, herr error) {
	outDir := tmpDir("c04out")
	os.Chmod(outDir, 0777)
	defer os.RemoveAll(outDir)
	hostOut := filepath.Join(outDir, "r.json")
	pr, pw, err := os.Pipe()
	if err != nil {
		return nil, nil, nil, err
	}
	defer pr.Close()
	defer pw.Close()
	r := &forkexec.Runner{
		Env:                    []string{},
		Files:                  []uintptr{pr.Fd(), devnull(), devnull()},
		DropCaps:               o.dropCaps,
		NoNewPrivs:             o.nnp,
		Ptrace:                 o.ptrace,
		StopBeforeSeccomp:      o.stop,
		UnshareCgroupAfterSync: o.ucas,
	}
	exe, outArg := probe("report"), hostOut
	if o.newuser && o.defaultMap {
		r.CloneFlags |= unix.CLONE_NEWUSER
	} else if o.newuser {
		r.CloneFlags |= unix.CLONE_NEWUSER
		r.UIDMappings = []syscall.SysProcIDMap{{ContainerID: 0, HostID: 0, Size: 65536}}
		r.GIDMappings = []syscall.SysProcIDMap{{ContainerID: 0, HostID: 0, Size: 65536}}
		r.GIDMappingsEnableSetgroups = true
	}
	if o.nsgroup {
		r.CloneFlags |= unix.CLONE_NEWPID | unix.CLONE_NEWNS | unix.CLONE_NEWUTS | unix.CLONE_NEWIPC | unix.CLONE_NEWNET
	}
	if o.pivot {
		root := tmpDir("c04root")
		defer os.Remove(root)
		sp, err := mount.NewBuilder().WithBind(binDir(), "probe", true).WithBind(outDir, "out", false).WithTmpfs("w", "").Build()
		if err != nil {
			return nil, nil, nil, err
		}
		r.PivotRoot, r.Mounts = root, sp
		exe, outArg = "/probe/report", "/out/r.json"
	}
	if o.workdir {
		if o.pivot {
			r.WorkDir = "/w"
		} else {
			r.WorkDir = outDir
		}
	}
	if o.names {
		r.HostName, r.DomainName = "c04host", "c04domain"
		if o.hostName != "" {
			r.HostName, r.DomainName = o.hostName, o.domName
		}
	}
	if o.cred {
		r.Credential = &syscall.Credential{Uid: 1234, Gid: 2345, Groups: []uint32{3456, 4567}}
		if o.credNoGroups {
			r.Credential.Groups = nil
		}
	}
	if o.seccomp {
		r.Seccomp = allowAll().SockFprog()
	}
	syncPid := 0
	if o.sync {
		r.SyncFunc = func(pid int) error { syncPid = pid; return nil }
	}
	r.Args = []string{exe, "--outfile=" + outArg, "--wait", "--in=0"}

	runtime.LockOSThread()
	defer runtime.UnlockOSThread()
	pid, err := r.Start()
	if err != nil {
		return nil, nil, err, nil
	}
	defer func() {
		syscall.Kill(pid, syscall.SIGKILL)
		var ws syscall.WaitStatus
		for {
			_, e := syscall.Wait4(pid, &ws, unix.WALL, nil)
			if e != syscall.EINTR {
				break
			}
		}
	}()
	if o.sync && syncPid != pid {
		return nil, nil, nil, fmt.Errorf("sync callback pid %d != Start pid %d", syncPid, pid)
	}
	deadline := time.Now().Add(horizon)
	for {
		if _, err := os.Stat(hostOut); err == nil {
			if rep, err = readReport(hostOut); err == nil {
				break
			}
		}
		var ws syscall.WaitStatus
		wp, _ := syscall.Wait4(pid, &ws, syscall.WNOHANG|syscall.WUNTRACED|unix.WALL, nil)
		if wp == pid {
			switch {
			case ws.Stopped():
				// traced stop (SIGSTOP before seccomp, exec trap): detach; plain group stop: continue it
				if err := syscall.PtraceDetach(pid); err != nil {
					syscall.Kill(pid, syscall.SIGCONT)
				}
			case ws.Exited() || ws.Signaled():
				return nil, nil, nil, fmt.Errorf("program ended before reporting (wait status %#x)", uint32(ws))
			}
		}
		if time.Now().After(deadline) {
			return nil, nil, nil, fmt.Errorf("no report within the horizon")
		}
		time.Sleep(200 * time.Microsecond)
	}
	ns = nsOf(fmt.Sprint(pid))
	return rep, ns, nil, nil
}

var c04tier = "quick"

func init() {
	registry["C04"] = func(tier string) *mc.Spec {
		c04tier = tier
		spec := &mc.Spec{
			Level: "exploration",
			Rule: "all subsets of {credential, drop-caps, no-new-privs, seccomp, sync callback, unshare-cgroup-after-sync} × namespace mode {none, user, pid+mnt+uts+ipc+net, user+those, those+pivot root, user+those+pivot root} × " +
				"{no tracing, ptrace (harness attaches and detaches), stop-before-seccomp} (quick: tracing modes only without namespaces) with work dir and host/domain name set whenever the namespaces allow; " +
				"plus host and domain names of every length combination over {1, 7, 64, 65} bytes in a new UTS namespace (names the kernel takes must be what the program sees, a name it refuses must refuse the launch); the launched probe reports caps, securebits, no_new_privs, seccomp mode, ids, groups, session, cwd, uname; namespace identities are read from the host side. " +
				"second launcher: container.Builder + Execve over {credential generator none / default ids / custom ids / custom uid only / custom gid only, custom host+domain name, custom work dir, seccomp filter, unshare-cgroup-before-exec, sync after exec, clone into a cgroup v2 directory, custom clone flags without a net namespace}. non-trivial: at least one option set; distinct = (option set, observed state vector)",
			Bound:       map[string]any{"clone_into_cgroup": "exercised through the container launcher with a directory of the controller-less cgroup2 hierarchy at /sys/fs/cgroup/unified", "ctty": "not exercised"},
			Assumptions: []string{"reference function options → state written from the property text (cmd/vcheck/c04.go)", "combinations the kernel rejects surface as a launch error and are recorded, not judged"},
			SplitDepth:  3,
			Workers:     4,
			Horizon:     60 * time.Second,
		}
		spec.Init = func() error {
			devnull()
			// give the launching process supplementary groups of its own, so that inheriting them is observable
			return syscall.Setgroups([]int{0, 4, 27})
		}
		spec.Fini = cleanupTmp
		myNS := nsOf("self")
		spec.Body = func(x *mc.X) {
			switch x.Choose(3, "launcher") {
			case 1:
				c04container(x, myNS)
				return
			case 2:
				c04names(x)
				return
			}
			var o c04opts
			nsMode := x.Choose(7, "nsmode")
			trace := x.Choose(3, "trace")
			switch x.Choose(3, "cred") {
			case 1:
				o.cred = true
			case 2:
				o.cred, o.credNoGroups = true, true
			}
			o.dropCaps = x.Bool("dropcaps")
			o.nnp = x.Bool("nnp")
			o.seccomp = x.Bool("seccomp")
			o.sync = x.Bool("sync")
			o.ucas = x.Bool("ucas")
			o.newuser = nsMode == 1 || nsMode == 3 || nsMode == 5 || nsMode == 6
			o.defaultMap = nsMode == 6
			o.nsgroup = nsMode >= 2 && nsMode <= 5
			o.pivot = nsMode >= 4 && nsMode <= 5
			o.ptrace = trace == 1
			o.stop = trace == 2
			o.workdir = true
			o.names = o.nsgroup
			if o.stop && o.sync {
				// the child stops itself before the sync point and only an external tracer that already knows its
				// pid could continue it: Start cannot return. Documented use needs a tracer; not a launch state.
				x.Outcome("skipped:stop-before-seccomp+sync-needs-external-tracer")
				return
			}
			x.Note("options", o.String())
			x.OnHang("C04/launch-hangs", "launch with options "+o.String()+" did not complete within the horizon")
			if x.Dry() {
				return
			}
			if o.defaultMap {
				if o.cred {
					// ids other than the mapped one do not exist in such a namespace: the kernel refuses the switch
					x.Outcome("n/a:credential-in-a-one-id-namespace")
					return
				}
				// for this launch the launcher's effective group id differs from its effective user id, so that the two
				// cannot stand in for each other in the mapping
				syscall.Setegid(4321)
				defer syscall.Setegid(0)
			}
			rep, ns, lerr, herr := c04launch(o)
			if herr != nil {
				x.Failf("C04/no-report", "options %s: %v", o, herr)
				x.Outcome("no-report")
				return
			}
			if lerr != nil {
				x.Note("launch-error", lerr.Error())
				x.Outcome("rejected:" + lerr.Error())
				return
			}
			var bad []string
			chk := func(cond bool, key, format string, a ...any) {
				if !cond {
					bad = append(bad, key)
					x.Failf("C04/"+key, "options %s: "+format, append([]any{o}, a...)...)
				}
			}
			zero := "0000000000000000"
			if o.cred || o.dropCaps {
				chk(rep.CapEff == zero && rep.CapPrm == zero && rep.CapInh == zero && rep.CapAmb == zero, "caps-not-empty",
					"capability sets eff=%s prm=%s inh=%s amb=%s, expected all empty", rep.CapEff, rep.CapPrm, rep.CapInh, rep.CapAmb)
				chk(rep.Securebits&1 != 0, "noroot-not-set", "securebits %#x lack SECBIT_NOROOT (root would regain privileges on exec)", rep.Securebits)
			}
			chk((rep.NoNewPrivs == 1) == (o.nnp || o.seccomp), "no-new-privs", "no_new_privs=%d, expected %v", rep.NoNewPrivs, o.nnp || o.seccomp)
			chk((rep.Seccomp == 2) == o.seccomp, "seccomp-mode", "seccomp mode %d, filter given: %v", rep.Seccomp, o.seccomp)
			wantU, wantG, wantGroups := 0, 0, fmt.Sprint(harnessGroups())
			if o.cred {
				wantU, wantG, wantGroups = 1234, 2345, "[3456 4567]"
				if o.credNoGroups {
					wantGroups = "[]"
				}
			}
			switch {
			case o.defaultMap:
				// no mapping given: the launcher's effective user and group ids are what the namespace calls 0
				chk(rep.UID[1] == 0 && rep.GID[1] == 0, "default-id-mapping", "effective uid/gid inside the namespace %d/%d (uids %v gids %v), expected 0/0: the default mapping maps the launcher's effective ids (uid 0, gid 4321) to 0", rep.UID[1], rep.GID[1], rep.UID, rep.GID)
			default:
				chk(rep.UID == [3]int{wantU, wantU, wantU}, "uid", "uids %v, expected %d", rep.UID, wantU)
				chk(rep.GID == [3]int{wantG, wantG, wantG}, "gid", "gids %v, expected %d", rep.GID, wantG)
			}
			g := append([]int{}, rep.Groups...)
			sort.Ints(g)
			if !o.defaultMap {
				chk(fmt.Sprint(g) == wantGroups, "groups", "supplementary groups %v, expected %s", g, wantGroups)
			}
			chk(rep.Sid == rep.Pid, "session", "sid %d != pid %d: not a session leader", rep.Sid, rep.Pid)
			if o.workdir {
				want := "/w"
				if !o.pivot {
					want = "<outdir>"
					chk(strings.Contains(rep.Cwd, "c04out"), "cwd", "cwd %q, expected the requested work dir", rep.Cwd)
				} else {
					chk(rep.Cwd == want, "cwd", "cwd %q, expected %q", rep.Cwd, want)
				}
			}
			if o.names {
				chk(rep.Host == "c04host" && rep.Domain == "c04domain", "uname", "host/domain %q/%q, expected c04host/c04domain", rep.Host, rep.Domain)
			}
			wantNew := map[string]bool{"user": o.newuser, "pid": o.nsgroup, "mnt": o.nsgroup, "uts": o.nsgroup, "ipc": o.nsgroup, "net": o.nsgroup, "cgroup": o.ucas}
			for _, n := range nsNames {
				if ns[n] == "" || myNS[n] == "" {
					continue
				}
				isNew := ns[n] != myNS[n]
				chk(isNew == wantNew[n], "namespace-"+n, "%s namespace new=%v, requested=%v", n, isNew, wantNew[n])
			}
			state := fmt.Sprintf("caps=%v nnp=%d sec=%d uid=%d ns=%v", rep.CapEff == zero, rep.NoNewPrivs, rep.Seccomp, rep.UID[0], nsDiff(ns, myNS))
			if o.String() != "(none)" {
				x.Distinct(o.String() + state)
			}
			if len(bad) > 0 {
				x.Outcome("bad")
			} else {
				x.Outcome(state)
			}
		}
		return spec
	}
}

func nsDiff(a, b map[string]string) string {
	s := ""
	for _, n := range nsNames {
		if a[n] != b[n] {
			s += n[:1]
		}
	}
	return s
}

func harnessGroups() []int {
	g, _ := syscall.Getgroups()
	sort.Ints(g)
	return g
}

// c04container: the same question through container.Builder + Execve, which fix some options (capabilities dropped,
// no_new_privs, own session) and derive others from the builder (credentials, names, work dir, namespaces).
// family "names": host and domain names of every length combination over {1, 7, 64 (the longest the kernel takes), 65}
// in a new UTS namespace. Names the kernel takes must be exactly what the program sees; a name it refuses must refuse the
// launch — a program that starts under another name although Start reported success is a silently skipped step.
func c04names(x *mc.X) {
	lens := []int{1, 7, 64, 65}
	hl := lens[x.Choose(len(lens), "host-name-length")]
	dl := lens[x.Choose(len(lens), "domain-name-length")]
	o := c04opts{nsgroup: true, names: true, newuser: x.Bool("newuser"), sync: x.Bool("sync")}
	o.hostName, o.domName = strings.Repeat("h", hl), strings.Repeat("d", dl)
	x.Note("options", fmt.Sprintf("%s, host name of %d bytes, domain name of %d bytes", o.String(), hl, dl))
	x.OnHang("C04/launch-hangs", "launch with names did not complete within the horizon")
	if x.Dry() {
		return
	}
	rep, _, lerr, herr := c04launch(o)
	legal := hl <= 64 && dl <= 64
	switch {
	case lerr != nil:
		x.Note("launch-error", lerr.Error())
		x.Outcome("names:refused")
		x.Distinct(fmt.Sprint("names", hl, dl, o.newuser, o.sync, "refused"))
		if legal {
			x.Failf("C04/names/legal-names-refused", "host name of %d bytes and domain name of %d bytes: %v", hl, dl, lerr)
		}
	case herr != nil:
		x.Failf("C04/no-report", "names %d/%d: %v", hl, dl, herr)
	default:
		x.Outcome("names:started")
		x.Distinct(fmt.Sprint("names", hl, dl, o.newuser, o.sync, rep.Host == o.hostName, rep.Domain == o.domName))
		if rep.Host != o.hostName || rep.Domain != o.domName {
			key := "C04/uname"
			if !legal {
				key = "C04/names/name-step-silently-skipped"
			}
			x.Failf(key, "requested a host name of %d bytes and a domain name of %d bytes; Start reported success and the program sees host %q (%d bytes) domain %q (%d bytes)", hl, dl, rep.Host, len(rep.Host), rep.Domain, len(rep.Domain))
		}
	}
}

func c04container(x *mc.X, myNS map[string]string) {
	cred := x.Choose(5, "credential") // 0 none, 1 default container ids, 2 custom ids, 3 custom uid only, 4 custom gid only (the other id keeps its default)
	names := x.Bool("custom-host-domain")
	filter := x.Bool("seccomp")
	syncAfter := x.Bool("sync-after-exec")
	intoCgroup := x.Bool("clone-into-cgroup")
	// quick ties three secondary options to primary ones; thorough enumerates them independently
	workdir, ucg, keepNet := names, filter, syncAfter
	if c04tier == "thorough" {
		workdir = x.Bool("custom-workdir")
		ucg = x.Bool("unshare-cgroup-before-exec")
		keepNet = x.Bool("custom-clone-flags(no-net)")
	}
	// history: the container has already served a launch whose per-launch options were the complement of this one's
	// (filter / none, sync mode, cgroup descriptor, limits, environment): nothing of it may carry over
	prior := x.Bool("prior-launch-with-complementary-options")
	desc := fmt.Sprintf("container cred=%d names=%v workdir=%v seccomp=%v cgroup-before-exec=%v sync-after=%v into-cgroup=%v keep-net=%v after-complementary-launch=%v", cred, names, workdir, filter, ucg, syncAfter, intoCgroup, keepNet, prior)
	x.Note("options", desc)
	if x.Dry() {
		return
	}
	c, err := newContainer(func(b *container.Builder) {
		if cred > 0 {
			b.CredGenerator = fixedCred{}
		}
		switch cred {
		case 2:
			b.ContainerUID, b.ContainerGID = 1234, 2345
		case 3:
			b.ContainerUID = 1234
		case 4:
			b.ContainerGID = 2345
		}
		if names {
			b.HostName, b.DomainName = "c04host", "c04domain"
		}
		if workdir {
			b.WorkDir = "/tmp"
		}
		b.UnshareCgroupBeforeExec = ucg
		if keepNet {
			b.CloneFlags = unix.CLONE_NEWUSER | unix.CLONE_NEWPID | unix.CLONE_NEWNS | unix.CLONE_NEWUTS | unix.CLONE_NEWIPC | unix.CLONE_NEWCGROUP
		}
	})
	if err != nil {
		x.Failf("C04/container/build-failed", "%s: %v", desc, err)
		return
	}
	defer c.Destroy()
	// the report is written into a tmpfs; the program may run under another uid
	root := ""
	if ps := childInits(os.Getpid()); len(ps) > 0 {
		root = fmt.Sprintf("/proc/%d/root", ps[len(ps)-1])
		os.Chmod(root+"/w", 0777)
		os.Chmod(root+"/tmp", 0777)
	}
	if prior {
		q := execveParam([]string{"/probe/burn", "exit", "0"})
		q.Env = []string{"PATH=/bin", "LEFTOVER=1"}
		if !filter {
			q.Seccomp = allowAll()
		}
		q.SyncAfterExec = !syncAfter
		q.RLimits = (&rlimit.RLimits{OpenFile: 77, Stack: 8 << 20}).PrepareRLimit()
		var cgf *os.File
		if !intoCgroup {
			dir := fmt.Sprintf("/sys/fs/cgroup/unified/verif-c04p-%d-%s", os.Getpid(), newNonce())
			if os.Mkdir(dir, 0755) == nil {
				defer syscall.Rmdir(dir)
				if cgf, _ = os.Open(dir); cgf != nil {
					q.CgroupFD = cgf.Fd()
				}
			}
		}
		qr := c.Execve(context.Background(), q)
		if cgf != nil {
			cgf.Close()
		}
		if qr.Status != runner.StatusNormal {
			x.Failf("C04/harness", "%s: the prior launch ended %v %s", desc, qr.Status, qr.Error)
			return
		}
	}
	p := execveParam([]string{"/probe/report", "--outfile=/w/r.json", "--wait", "--in=0"})
	pr, pw, _ := os.Pipe()
	defer pr.Close()
	defer pw.Close()
	p.Files = []uintptr{pr.Fd(), devnull(), devnull()}
	if filter {
		p.Seccomp = allowAll()
	}
	p.SyncAfterExec = syncAfter
	cgName := ""
	if intoCgroup {
		cgName = fmt.Sprintf("verif-c04-%d-%s", os.Getpid(), newNonce())
		dir := "/sys/fs/cgroup/unified/" + cgName
		if err := os.Mkdir(dir, 0755); err != nil {
			x.Failf("C04/harness", "cgroup2 dir: %v", err)
			return
		}
		defer syscall.Rmdir(dir)
		f, err := os.Open(dir)
		if err != nil {
			x.Failf("C04/harness", "%v", err)
			return
		}
		defer f.Close()
		p.CgroupFD = f.Fd()
	}
	var ns map[string]string
	member := ""
	progPid := 0
	p.SyncFunc = func(pid int) error { progPid = pid; return nil }
	resCh := make(chan runner.Result, 1)
	go func() { resCh <- c.Execve(context.Background(), p) }()
	var rep *report
	ok := waitUntil(horizon, func() bool {
		r, err := readReport(root + "/w/r.json")
		if err != nil || progPid == 0 { // with sync after exec the program reports before the callback has run
			return false
		}
		rep = r
		return true
	})
	if ok {
		// identify the program from the host side: the process inside the container whose NSpid ends with the reported pid
		hostPid := progPid
		if syncAfter {
			hostPid = findByNSpid(rep.Pid, progPid)
		}
		ns = nsOf(fmt.Sprint(hostPid))
		if b, err := os.ReadFile(fmt.Sprintf("/proc/%d/cgroup", hostPid)); err == nil {
			for _, l := range strings.Split(string(b), "\n") {
				if strings.HasPrefix(l, "0::") {
					member = l[3:]
				}
			}
		}
	}
	pw.Write([]byte{'x'})
	pw.Close()
	var res runner.Result
	select {
	case res = <-resCh:
	case <-time.After(horizon):
		x.Failf("C04/container/run-hangs", "%s: Execve did not return", desc)
		return
	}
	if !ok || res.Status != runner.StatusNormal {
		x.Failf("C04/container/no-report", "%s: %v %s (report seen: %v)", desc, res.Status, res.Error, ok)
		return
	}
	chk := func(cond bool, key, format string, a ...any) {
		if !cond {
			x.Failf("C04/container/"+key, "%s: "+format, append([]any{desc}, a...)...)
		}
	}
	zero := "0000000000000000"
	chk(rep.CapEff == zero && rep.CapPrm == zero && rep.CapInh == zero && rep.CapAmb == zero, "caps-not-empty", "capability sets eff=%s prm=%s inh=%s amb=%s", rep.CapEff, rep.CapPrm, rep.CapInh, rep.CapAmb)
	chk(rep.Securebits&1 != 0, "noroot-not-set", "securebits %#x lack SECBIT_NOROOT", rep.Securebits)
	chk(rep.NoNewPrivs == 1, "no-new-privs", "no_new_privs=%d", rep.NoNewPrivs)
	chk((rep.Seccomp == 2) == filter, "seccomp-mode", "seccomp mode %d, filter given: %v", rep.Seccomp, filter)
	if prior && len(rep.Rlimits) > unix.RLIMIT_NOFILE {
		chk(rep.Rlimits[unix.RLIMIT_NOFILE][0] != 77, "limit-of-prior-launch", "the open-file limit 77 of the prior launch is in force in this one")
	}
	if !intoCgroup && prior {
		chk(!strings.Contains(member, "verif-c04p-"), "cgroup-of-prior-launch", "the program sits in the cgroup %q given to the prior launch", member)
	}
	wantU, wantG := 0, 0
	switch cred {
	case 1:
		wantU, wantG = 1000, 1000
	case 2:
		wantU, wantG = 1234, 2345
	case 3:
		wantU, wantG = 1234, 1000
	case 4:
		wantU, wantG = 1000, 2345
	}
	chk(rep.UID == [3]int{wantU, wantU, wantU} && rep.GID == [3]int{wantG, wantG, wantG}, "ids", "uids %v gids %v, expected %d/%d", rep.UID, rep.GID, wantU, wantG)
	if cred != 0 {
		// the credential generator asks for a uid and a gid and for no supplementary groups: the program must not keep the
		// groups of the process that built the container (the launching worker has groups of its own, see Init)
		g := append([]int{}, rep.Groups...)
		sort.Ints(g)
		chk(len(g) == 0, "groups-kept", "the program runs as %d/%d but keeps supplementary groups %v of the builder (seen through the container's gid map)", wantU, wantG, g)
	}
	chk(rep.Sid == rep.Pid, "session", "sid %d != pid %d", rep.Sid, rep.Pid)
	wantCwd, wantHost, wantDom := "/w", "go-sandbox", "go-sandbox"
	if workdir {
		wantCwd = "/tmp"
	}
	if names {
		wantHost, wantDom = "c04host", "c04domain"
	}
	chk(rep.Cwd == wantCwd, "cwd", "cwd %q, expected %q", rep.Cwd, wantCwd)
	chk(rep.Host == wantHost && rep.Domain == wantDom, "uname", "host/domain %q/%q, expected %q/%q", rep.Host, rep.Domain, wantHost, wantDom)
	for _, n := range []string{"user", "pid", "mnt", "uts", "ipc"} {
		chk(ns[n] != "" && ns[n] != myNS[n], "namespace-"+n, "%s namespace is the launcher's own", n)
	}
	chk((ns["net"] != myNS["net"]) == !keepNet, "namespace-net", "net namespace new=%v, keep-net requested=%v", ns["net"] != myNS["net"], keepNet)
	if intoCgroup {
		chk(member == "/"+cgName, "not-in-requested-cgroup", "program is in cgroup %q, requested /%s", member, cgName)
	}
	x.Distinct(desc + fmt.Sprint(rep.UID[0], rep.Seccomp, member != ""))
	x.Outcome(fmt.Sprintf("container:uid=%d:sec=%d:cg=%v", rep.UID[0], rep.Seccomp, intoCgroup))
}

// findByNSpid returns the host pid of the process whose innermost pid is inner and whose parent is initPid.
func findByNSpid(inner, initPid int) int {
	for p := range childPids(initPid) {
		f := strings.Fields(nspidLine(p))
		if len(f) > 1 && f[len(f)-1] == fmt.Sprint(inner) {
			return p
		}
	}
	return initPid
}
