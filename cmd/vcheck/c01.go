package main

import (
	"fmt"
	"sort"
	"sync"
	"syscall"
	"unsafe"

	"github.com/criyle/go-sandbox/cmd/runprog/config"
	"github.com/criyle/go-sandbox/pkg/seccomp"
	"github.com/criyle/go-sandbox/pkg/seccomp/libseccomp"
	"github.com/elastic/go-seccomp-bpf/arch"
	"verif/cbpf"
	"verif/mc"
)

// C01 — the compiled seccomp filter implements the declared policy exactly.

const c01Native = 0xc000003e // AUDIT_ARCH_X86_64
const c01X32Bit = 0x40000000

var c01Arches = []uint32{0xc00000b7, 0x40000028, 0x28, 0x4000004c, 0x5441, 0x40000003, 0xc0000032, 0x58, 0x4, 0x8, 0x80000008,
	0xa0000008, 0x40000008, 0xc0000008, 0xe0000008, 0xf, 0x8000000f, 0x14, 0x80000015, 0xc0000015, 0x16, 0x80000016, 0x2a,
	0x8000002a, 0x4000002a, 0xc000002a, 0x2, 0x8000002b, c01Native}

type c01policy struct {
	allow, trace []string
	def          libseccomp.Action
}

// expected class of the default action as the property states it
func c01defaultClass(a libseccomp.Action) string {
	switch a & 0xffff {
	case libseccomp.ActionAllow:
		return "ALLOW"
	case libseccomp.ActionErrno:
		return "ERRNO"
	case libseccomp.ActionTrace:
		return "TRACE"
	}
	return "KILL_PROCESS" // kill, unset and undefined values fail closed
}

func c01refused(class string) bool {
	return class == "ERRNO" || class == "KILL_PROCESS" || class == "KILL_THREAD" || class == "TRAP"
}

type c01oracle struct {
	allow, trace map[uint32]bool
	def          string
}

func (o *c01oracle) expect(archTag, nr uint32) (class string, alt string) {
	if archTag != c01Native {
		return o.def, ""
	}
	if nr&c01X32Bit != 0 {
		return "REFUSED", ""
	}
	if nr >= 0x80000000 {
		// no ABI uses these numbers; the dependency's x32 guard (nr >= 0x40000000) also refuses them, which is
		// stricter than the property: accept refusal or the default action
		return o.def, "REFUSED"
	}
	if o.allow[nr] {
		return "ALLOW", ""
	}
	if o.trace[nr] {
		return "TRACE", ""
	}
	return o.def, ""
}

func c01match(exp, got string) bool {
	if exp == "REFUSED" {
		return c01refused(got)
	}
	return exp == got
}

func c01nrSet(tier string, tableNums []int) []uint32 {
	m := map[uint32]bool{}
	lim := uint32(4096)
	if tier == "thorough" {
		lim = 65536
	}
	for i := uint32(0); i < lim; i++ {
		m[i] = true
	}
	for _, k := range tableNums {
		for _, d := range []int{-1, 0, 1} {
			v := uint32(k + d)
			m[v] = true
			m[v|c01X32Bit] = true
			m[v|0x80000000] = true
		}
	}
	for _, v := range []uint32{1<<30 - 1, 1 << 30, 1<<31 - 1, 1 << 31, 1<<32 - 1, 0xc0000000, 0xbfffffff} {
		m[v] = true
	}
	out := make([]uint32, 0, len(m))
	for v := range m {
		out = append(out, v)
	}
	sort.Slice(out, func(i, j int) bool { return out[i] < out[j] })
	return out
}

func c01archSet() []uint32 {
	m := map[uint32]bool{0: true, 0xffffffff: true}
	for _, a := range c01Arches {
		m[a] = true
	}
	for b := 0; b < 32; b++ {
		m[c01Native^(1<<uint(b))] = true
	}
	out := make([]uint32, 0, len(m))
	for v := range m {
		out = append(out, v)
	}
	sort.Slice(out, func(i, j int) bool { return out[i] < out[j] })
	return out
}

func init() {
	registry["C01"] = func(tier string) *mc.Spec {
		info, err := arch.GetInfo("")
		if err != nil {
			panic(err)
		}
		var tableNums []int
		maxNr, maxName := 0, ""
		for n, name := range info.SyscallNumbers {
			tableNums = append(tableNums, n)
			if n > maxNr {
				maxNr, maxName = n, name
			}
		}
		sort.Ints(tableNums)
		var allNames []string
		for _, n := range tableNums {
			allNames = append(allNames, info.SyscallNumbers[n])
		}
		sigma := []string{"read", "write", "fork", "vfork", "execve", maxName}
		if tier == "thorough" {
			sigma = append(sigma, "open", "openat")
		}
		defaults := []libseccomp.Action{0, libseccomp.ActionAllow, libseccomp.ActionErrno, libseccomp.ActionTrace, libseccomp.ActionKill, 9,
			libseccomp.ActionTrace | libseccomp.Action(uint32(libseccomp.MsgHandle)<<16), libseccomp.ActionAllow | libseccomp.Action(uint32(libseccomp.MsgDisallow)<<16)}
		nrs := c01nrSet(tier, tableNums)
		arches := c01archSet()
		sweepChunks := 64

		spec := &mc.Spec{
			Level: "exploration",
			Rule: "family 0: every assignment {absent, allow, trace} of the alphabet Σ × every default action × both list orders; each built filter is interpreted (kernel cBPF semantics) on " +
				"native arch × nr-set, on every other arch tag × a reduced nr-set, and with three argument/ip patterns; family 1: long policies (whole table allowed / traced / alternating / runprog configurations), " +
				"forcing the long-jump paths; family 2: malformed policies (duplicate, unknown, overlapping names) must be refused, never compiled; family 3: histories of 2..3 Builds over a four-policy alphabet of different program lengths, every filter re-interpreted (and compared with a snapshot) after all later Builds — a filter belongs to its policy for as long as it is held; family 4 (complement, free-running, decides nothing): two goroutines building two different policies 200 times each at the same time, every filter checked against its own policy; family 5 (thorough): full 2^32 nr sweeps and full 2^32 arch sweeps. " +
				"non-trivial: at least one name listed; distinct = hash of (policy, class vector over a fixed probe set)",
			Bound: map[string]any{"sigma": sigma, "defaults": defaults, "nr_points": len(nrs), "arch_tags": len(arches),
				"zone_note": "nr >= 2^31 with bit 30 clear: refusal or the default action accepted (the dependency refuses everything >= 2^30)"},
			Assumptions: []string{"cbpf interpreter in /verif/cbpf implements the kernel's classic BPF semantics for the seccomp subset",
				"structural pass: the program loads only nr and arch, so ip/args cannot influence the verdict (re-checked per program; three patterns are run anyway)"},
			SplitDepth: 4,
		}
		spec.Body = func(x *mc.X) {
			nf := 5
			if tier == "thorough" {
				nf = 6
			}
			switch x.Choose(nf, "family") {
			case 5:
				c01sweep(x, info, sigma, allNames, sweepChunks)
			case 4:
				c01concurrent(x, info, allNames, nrs, arches)
				return
			case 0:
				var p c01policy
				p.def = defaults[x.Choose(len(defaults), "default")]
				rev := x.Choose(2, "order") == 1
				for _, n := range sigma {
					switch x.Choose(3, n) {
					case 1:
						p.allow = append(p.allow, n)
					case 2:
						p.trace = append(p.trace, n)
					}
				}
				if rev {
					c01reverse(p.allow)
					c01reverse(p.trace)
				}
				c01evaluate(x, info, p, nrs, arches, true)
			case 1:
				c01long(x, info, allNames, defaults, nrs, arches)
			case 2:
				c01malformed(x, sigma)
			case 3:
				c01history(x, info, allNames, nrs, arches, tier)
			}
		}
		return spec
	}
}

func c01reverse(s []string) {
	for i, j := 0, len(s)-1; i < j; i, j = i+1, j-1 {
		s[i], s[j] = s[j], s[i]
	}
}

func c01build(x *mc.X, p c01policy) (seccomp.Filter, bool) {
	b := libseccomp.Builder{Allow: p.allow, Trace: p.trace, Default: p.def}
	f, err := b.Build()
	if err != nil {
		x.Failf("C01/build-error", "Build(allow=%v trace=%v default=%d) failed: %v", p.allow, p.trace, p.def, err)
		return nil, false
	}
	if len(f) == 0 {
		x.Failf("C01/empty-filter", "Build returned an empty filter")
		return nil, false
	}
	// what the kernel is handed is SockFprog(): its length must describe the whole program
	fp := f.SockFprog()
	if int(fp.Len) != len(f) || fp.Filter != &f[0] {
		x.Failf("C01/sockfprog-truncated", "SockFprog describes %d instructions, filter has %d", fp.Len, len(f))
		return nil, false
	}
	return f, true
}

func c01mkOracle(info *arch.Info, p c01policy) *c01oracle {
	o := &c01oracle{allow: map[uint32]bool{}, trace: map[uint32]bool{}, def: c01defaultClass(p.def)}
	for _, n := range p.allow {
		o.allow[uint32(info.SyscallNames[n])] = true
	}
	for _, n := range p.trace {
		o.trace[uint32(info.SyscallNames[n])] = true
	}
	return o
}

func c01evaluate(x *mc.X, info *arch.Info, p c01policy, nrs, arches []uint32, note bool) {
	if note {
		x.Note("allow", p.allow)
		x.Note("trace", p.trace)
		x.Note("default", p.def)
	}
	f, ok := c01build(x, p)
	if !ok {
		x.Outcome("build-error")
		return
	}
	c01checkFilter(x, info, p, f, nrs, arches, "")
}

// c01checkFilter interprets an already built filter against the policy it was built for; tag prefixes the failure keys
// (the history family evaluates a filter after later builds).
func c01checkFilter(x *mc.X, info *arch.Info, p c01policy, f seccomp.Filter, nrs, arches []uint32, tag string) {
	// what the kernel is handed is SockFprog(): evaluate exactly the Len instructions found at Filter
	fp := f.SockFprog()
	prog := unsafe.Slice((*syscall.SockFilter)(unsafe.Pointer(fp.Filter)), int(fp.Len))
	shape, err := cbpf.Check(prog)
	if err != nil {
		x.Failf("C01/"+tag+"not-loadable", "filter would be rejected by the kernel: %v", err)
		x.Outcome("not-loadable")
		return
	}
	o := c01mkOracle(info, p)
	patterns := []cbpf.Data{{}, {IP: ^uint64(0), Args: [6]uint64{^uint64(0), ^uint64(0), ^uint64(0), ^uint64(0), ^uint64(0), ^uint64(0)}},
		{IP: 0x00007f1234567890, Args: [6]uint64{0x40000000, 59, 0xc000003e, 1, 0xffffffff00000000, 0x3b}}}
	if !shape.LoadsOther && !shape.UsesScratch && !shape.UsesALU {
		patterns = patterns[:1] // ip/args cannot be observed by the program
	} else {
		x.Note("shape", "program reads more than nr/arch: all argument patterns evaluated")
	}
	classes := map[string]int{}
	var n int64
	check := func(a, nr uint32) {
		for pi := range patterns {
			d := patterns[pi]
			d.Arch, d.Nr = a, nr
			got := cbpf.Class(cbpf.Run(prog, &d))
			n++
			exp, alt := o.expect(a, nr)
			classes[got]++
			if !c01match(exp, got) && !(alt != "" && c01match(alt, got)) {
				zone := "native"
				switch {
				case a != c01Native:
					zone = "foreign-arch"
				case nr&c01X32Bit != 0:
					zone = "x32"
				case nr >= 0x80000000:
					zone = "high"
				case o.allow[nr]:
					zone = "allow-listed"
				case o.trace[nr]:
					zone = "trace-listed"
				default:
					zone = "unlisted"
				}
				x.Failf(fmt.Sprintf("C01/%s%s-exp-%s-got-%s", tag, zone, exp, got),
					"policy allow=%v trace=%v default=%d: arch=%#x nr=%#x → %s, expected %s", p.allow, p.trace, p.def, a, nr, got, exp)
			}
		}
	}
	for _, nr := range nrs {
		check(c01Native, nr)
	}
	// foreign tags: default whatever the number; a reduced number set suffices per tag (the program branches on arch first),
	// but listed numbers and their x32 variants are always included
	var few []uint32
	for k := range o.allow {
		few = append(few, k, k|c01X32Bit)
	}
	for k := range o.trace {
		few = append(few, k, k|c01X32Bit)
	}
	few = append(few, 0, 1, 59, 1<<30, 1<<31, 1<<32-1)
	for _, a := range arches {
		if a == c01Native {
			continue
		}
		for _, nr := range few {
			check(a, nr)
		}
	}
	x.Count(n)
	if len(p.allow)+len(p.trace) > 0 {
		x.Distinct(fmt.Sprint(p.allow, p.trace, p.def, classes))
	}
	var ks []string
	for k := range classes {
		ks = append(ks, k)
	}
	sort.Strings(ks)
	x.Outcome(fmt.Sprint(ks))
}

func c01long(x *mc.X, info *arch.Info, all []string, defaults []libseccomp.Action, nrs, arches []uint32) {
	kind := x.Choose(6, "long-kind")
	def := defaults[x.Choose(len(defaults), "default")]
	var p c01policy
	p.def = def
	switch kind {
	case 0: // whole table allowed
		p.allow = append([]string{}, all...)
		x.Note("long", "all-allowed")
	case 1: // whole table traced
		p.trace = append([]string{}, all...)
		x.Note("long", "all-traced")
	case 2: // alternating
		for i, n := range all {
			if i%2 == 0 {
				p.allow = append(p.allow, n)
			} else {
				p.trace = append(p.trace, n)
			}
		}
		x.Note("long", "alternating")
	case 3, 4, 5: // the shipped run-program configurations
		types := []string{"", "python3", "compiler"}
		pt := types[kind-3]
		ap := x.Choose(2, "allowProc") == 1
		_, allow, trace, _ := config.GetConf(pt, "/tmp/w", []string{"/tmp/w/a.out"}, nil, nil, ap)
		_, allow0, trace0, _ := config.GetConf(pt, "/tmp/w", []string{"/tmp/w/a.out"}, nil, nil, false)
		x.Note("long", fmt.Sprintf("GetConf(%q, allowProc=%v)", pt, ap))
		inT := map[string]bool{}
		for _, n := range trace {
			inT[n] = true
		}
		for _, n := range allow {
			if inT[n] {
				x.Failf("C01/getconf-overlap", "GetConf(%q,%v): %s is both allowed and traced", pt, ap, n)
			}
		}
		for _, n := range trace0 {
			if !inT[n] {
				x.Failf("C01/getconf-trace-lost", "GetConf(%q): %s is traced without allowProc but not with it (trace must take precedence)", pt, n)
			}
		}
		_ = allow0
		sort.Strings(allow)
		sort.Strings(trace)
		p.allow, p.trace = allow, trace
	}
	x.Note("default", def)
	x.Note("lists", fmt.Sprintf("%d allowed, %d traced", len(p.allow), len(p.trace)))
	if x.Failed() {
		x.Outcome("getconf-bad")
		return
	}
	c01evaluate(x, info, p, nrs, arches, false)
}

func c01malformed(x *mc.X, sigma []string) {
	kinds := []string{"dup-in-allow", "dup-in-trace", "unknown-allow", "unknown-trace", "same-name-both-lists"}
	k := x.Choose(len(kinds), "malformed")
	n := sigma[x.Choose(len(sigma), "name")]
	x.Note("malformed", kinds[k])
	x.Note("name", n)
	var b libseccomp.Builder
	b.Default = libseccomp.ActionKill
	switch k {
	case 0:
		b.Allow = []string{n, "close", n}
	case 1:
		b.Trace = []string{n, "close", n}
	case 2:
		b.Allow = []string{n, "no_such_syscall_" + n}
	case 3:
		b.Trace = []string{"no_such_syscall_" + n, n}
	case 4:
		b.Allow = []string{n}
		b.Trace = []string{n}
	}
	f, err := b.Build()
	x.Count(1)
	x.Distinct(fmt.Sprint("malformed", k, n, err != nil))
	if k == 4 {
		// overlapping lists are outside the property's quantifier (disjoint subsets); whichever way the builder
		// resolves it, the result must not be ALLOW for a name that is also trace-listed being silently dropped: record only
		x.Outcome(fmt.Sprintf("overlap:err=%v", err != nil))
		return
	}
	if err == nil {
		x.Failf("C01/malformed-accepted-"+kinds[k], "Build accepted a %s policy and produced %d instructions", kinds[k], len(f))
	}
	x.Outcome(fmt.Sprintf("malformed:err=%v", err != nil))
}

// c01sweep: full 2^32 sweeps, split in chunks (one execution per chunk).
func c01sweep(x *mc.X, info *arch.Info, sigma, all []string, chunks int) {
	pols := []c01policy{
		{allow: []string{"read", "write"}, trace: []string{"execve"}, def: libseccomp.ActionKill},
		{allow: []string{"read"}, trace: []string{"open", "openat"}, def: libseccomp.ActionTrace},
		{allow: nil, trace: nil, def: libseccomp.ActionAllow},
		{allow: []string{sigma[5]}, trace: []string{"write"}, def: libseccomp.ActionErrno},
		{allow: []string{"fork", "vfork"}, trace: nil, def: 0},
		{allow: nil, trace: []string{"read", "execve", sigma[5]}, def: libseccomp.ActionKill},
	}
	mode := x.Choose(2, "sweep")
	if mode == 0 {
		pi := x.Choose(len(pols), "policy")
		// every policy under the native tag; the first two also under a foreign tag (there the program returns after two instructions)
		archs := []uint32{c01Native}
		if pi < 2 {
			archs = append(archs, 0x40000003)
		}
		at := archs[x.Choose(len(archs), "arch")]
		c := x.Choose(chunks, "chunk")
		p := pols[pi]
		x.Note("sweep", fmt.Sprintf("all nr in chunk %d/%d, arch %#x", c, chunks, at))
		x.Note("allow", p.allow)
		x.Note("trace", p.trace)
		x.Note("default", p.def)
		f, ok := c01build(x, p)
		if !ok {
			return
		}
		prog := []syscall.SockFilter(f)
		if _, err := cbpf.Check(prog); err != nil {
			x.Failf("C01/not-loadable", "%v", err)
			return
		}
		o := c01mkOracle(info, p)
		size := uint64(1<<32) / uint64(chunks)
		lo := uint64(c) * size
		var d cbpf.Data
		d.Arch = at
		classes := map[string]int{}
		bad := 0
		for v := lo; v < lo+size; v++ {
			d.Nr = uint32(v)
			ret := cbpf.Run(prog, &d)
			got := cbpf.Class(ret)
			exp, alt := o.expect(at, d.Nr)
			if !c01match(exp, got) && !(alt != "" && c01match(alt, got)) {
				if bad == 0 {
					x.Failf(fmt.Sprintf("C01/sweep-exp-%s-got-%s", exp, got), "policy %d arch=%#x nr=%#x → %s, expected %s", pi, at, d.Nr, got, exp)
				}
				bad++
			}
			classes[got]++
		}
		x.Count(int64(size))
		x.Distinct(fmt.Sprint("sweep", pi, at, c, classes))
		x.Outcome(fmt.Sprint("sweep-nr:", len(classes)))
		return
	}
	// all 2^32 arch tags for a few numbers
	pi := 0
	c := x.Choose(chunks, "chunk")
	p := pols[pi]
	x.Note("sweep", fmt.Sprintf("all arch tags in chunk %d/%d", c, chunks))
	x.Note("allow", p.allow)
	x.Note("trace", p.trace)
	f, ok := c01build(x, p)
	if !ok {
		return
	}
	prog := []syscall.SockFilter(f)
	o := c01mkOracle(info, p)
	size := uint64(1<<32) / uint64(chunks)
	lo := uint64(c) * size
	nrs := []uint32{0, 1, 59, 2, 0x40000000, 0x4000003b, 0x80000000, 0xffffffff}
	var d cbpf.Data
	classes := map[string]int{}
	bad := 0
	for v := lo; v < lo+size; v++ {
		d.Arch = uint32(v)
		for _, nr := range nrs {
			d.Nr = nr
			got := cbpf.Class(cbpf.Run(prog, &d))
			exp, alt := o.expect(d.Arch, nr)
			if !c01match(exp, got) && !(alt != "" && c01match(alt, got)) {
				if bad == 0 {
					x.Failf(fmt.Sprintf("C01/archsweep-exp-%s-got-%s", exp, got), "policy %d arch=%#x nr=%#x → %s, expected %s", pi, d.Arch, nr, got, exp)
				}
				bad++
			}
			classes[got]++
		}
	}
	x.Count(int64(size) * int64(len(nrs)))
	x.Distinct(fmt.Sprint("archsweep", pi, c, classes))
	x.Outcome(fmt.Sprint("sweep-arch:", len(classes)))
}

// c01history: every sequence of 2..3 Builds over an alphabet of policies whose programs differ in length; after the
// last Build every earlier filter must still be instruction-for-instruction what it was when returned and must still
// implement its own policy.
// c01concurrent: two goroutines build different policies at the same time, every filter either of them gets must be its
// own policy's. The interleaving of the two Builds is NOT controlled (the builder has no scheduling points of ours): this
// family is a free-running complement that can only add alarms — every alarm is a wrong filter — and decides nothing.
func c01concurrent(x *mc.X, info *arch.Info, all []string, nrs, arches []uint32) {
	alpha := []c01policy{
		{allow: append([]string{}, all...), def: libseccomp.ActionKill},
		{allow: []string{"read", "write"}, trace: []string{"execve"}, def: libseccomp.ActionKill},
		{def: libseccomp.ActionAllow},
		{allow: []string{"read"}, trace: []string{"open", "openat", "fork"}, def: libseccomp.ActionTrace},
	}
	a := x.Choose(len(alpha), "policy-a")
	b := x.Choose(len(alpha), "policy-b")
	x.Note("concurrent-builds", fmt.Sprint("policies ", a, " and ", b, ", 200 builds each, free-running"))
	if x.Dry() {
		return
	}
	if a == b {
		x.Outcome("n/a:same-policy")
		return
	}
	few := nrs
	if len(few) > 400 {
		few = few[:400]
	}
	var wg sync.WaitGroup
	for _, pi := range []int{a, b} {
		wg.Add(1)
		go func(pi int) {
			defer wg.Done()
			for i := 0; i < 200 && !x.Failed(); i++ {
				f, ok := c01build(x, alpha[pi])
				if !ok {
					return
				}
				c01checkFilter(x, info, alpha[pi], f, few, arches[:2], "concurrent-builds/")
			}
		}(pi)
	}
	wg.Wait()
	x.Distinct(fmt.Sprint("concurrent", a, b))
	x.Outcome("concurrent-builds")
}

func c01history(x *mc.X, info *arch.Info, all []string, nrs, arches []uint32, tier string) {
	alpha := []c01policy{
		{allow: append([]string{}, all...), def: libseccomp.ActionKill},                           // longest program
		{allow: []string{"read", "write"}, trace: []string{"execve"}, def: libseccomp.ActionKill}, // short, strict
		{def: libseccomp.ActionAllow}, // shortest, permissive
		{allow: []string{"read"}, trace: []string{"open", "openat", "fork"}, def: libseccomp.ActionTrace}, // medium
	}
	maxLen := 3
	n := 2 + x.Choose(maxLen-1, "builds")
	var seq []int
	for i := 0; i < n; i++ {
		seq = append(seq, x.Choose(len(alpha), fmt.Sprintf("policy%d", i)))
	}
	x.Note("history", fmt.Sprint("builds of alphabet policies ", seq))
	if x.Dry() {
		return
	}
	type built struct {
		f    seccomp.Filter
		snap []syscall.SockFilter
	}
	var bs []built
	for _, pi := range seq {
		f, ok := c01build(x, alpha[pi])
		if !ok {
			x.Outcome("build-error")
			return
		}
		bs = append(bs, built{f, append([]syscall.SockFilter{}, f...)})
	}
	few := nrs
	if len(few) > 600 {
		few = few[:600] // every table number lies below 600; the full set is covered by family 0
	}
	for i, b := range bs {
		tag := ""
		if i < len(bs)-1 {
			tag = "after-later-build/"
			fp := b.f.SockFprog()
			cur := unsafe.Slice((*syscall.SockFilter)(unsafe.Pointer(fp.Filter)), int(fp.Len))
			same := len(cur) == len(b.snap)
			for j := 0; same && j < len(cur); j++ {
				same = cur[j] == b.snap[j]
			}
			if !same {
				x.Failf("C01/after-later-build/filter-rewritten", "history %v: the filter returned by build %d (policy %d) no longer holds the instructions it was returned with after the later builds",
					seq, i, seq[i])
			}
		}
		c01checkFilter(x, info, alpha[seq[i]], b.f, few, arches[:4], tag)
	}
	x.Distinct(fmt.Sprint("history", seq))
	x.Outcome(fmt.Sprint("history:", n))
}
