package main

import (
	"bytes"
	"context"
	"errors"
	"fmt"
	"io"
	"os"
	"strings"
	"syscall"
	"time"

	"github.com/criyle/go-sandbox/container"
	"github.com/criyle/go-sandbox/pkg/memfd"
	"github.com/criyle/go-sandbox/pkg/mount"
	"github.com/criyle/go-sandbox/runner"
	"golang.org/x/sys/unix"
	"verif/mc"
)

// C13 — pooled containers carry no state between runs; sealed executables are immutable.

var c13kinds = "dLzhsfklmorx"

var c13kindName = map[byte]string{'d': "deep-path", 'L': "longer-than-PATH_MAX", 'z': "mode-000-dir", 'h': "hidden-names", 's': "symlinks", 'f': "fifo", 'k': "socket",
	'l': "hard-links", 'm': "2000-entries", 'o': "file-held-open", 'r': "read-only-dir", 'x': "weird-names"}

type fixedCred struct{}

func (fixedCred) Get() syscall.Credential { return syscall.Credential{Uid: 10001, Gid: 10001} }

var c13tmpfs = []string{"w", "tmp", "w/inner", "big", "wide", "tmp2", "gl[0]b", "st*r?", "sp ace"} // the last three: names that are not plain words (pattern characters, a blank)

func c13mounts() []mount.Mount {
	return mount.NewBuilder().WithBind(binDir(), "probe", true).WithTmpfs("w", "").WithTmpfs("tmp", "").WithTmpfs("w/inner", "").WithTmpfs("big", "size=16m,nr_inodes=8k").WithTmpfs("wide", "").WithTmpfs("tmp2", "").WithTmpfs("gl[0]b", "").WithTmpfs("st*r?", "").WithTmpfs("sp ace", "").WithProc().Mounts
}

func listDir(p string) []string {
	ents, err := os.ReadDir(p)
	if err != nil {
		return []string{"<unreadable: " + err.Error() + ">"}
	}
	var out []string
	for _, e := range ents {
		out = append(out, e.Name())
	}
	return out
}

func init() {
	registry["C13"] = func(tier string) *mc.Spec {
		maxKinds := 2
		if tier == "thorough" {
			maxKinds = 3
		}
		spec := &mc.Spec{
			Level: "exploration",
			Rule: "Reset: a real program (fsgen) creates every subset of ≤ maxKinds residue kinds out of 12 (deep path, path longer than PATH_MAX, mode-000 directory with content, hidden names, dangling / host / self symlinks, FIFO, socket, hard links, 2000 entries, file held open by a surviving process, read-only directory, weird names) in every tmpfs mount of the container (work dir, /tmp, a tmpfs nested in the work dir, a tmpfs with size options, two tmpfs whose names extend the names of earlier ones, three whose names contain pattern characters or a blank), with and without credential switching, on an environment built with and without an init command (the program also tries the root, /dev and the masked directory /proc/acpi, where nothing may stay), in the histories run→Reset and run→run→Reset, the last run ending by itself or refused by the caller's sync callback after the program already ran (sync after exec); " +
				"afterwards every tmpfs mount must be empty as seen from the host through /proc/<init>/root; plus a Reset that cannot succeed (the init's open-file limit lowered to 24 from the host side, a directory chain of 40 levels left by the program): it either cleans everything or reports the failure. memfd: sizes {0,1,4095,4096,4097,65536,1 MiB+1} × byte patterns × reader behaviours (whole, one byte at a time, 7 at a time, failing midway, and readers with a size or position of their own: advanced bytes.Reader, partly consumed SectionReader window, file at an offset, bytes.Buffer, LimitedReader); content, offset and seals checked; every modification attempt by the holder of the descriptor and by a program exec'ed from the sealed file (on its own image and on a second sealed descriptor) must leave the bytes unchanged. " +
				"non-trivial: at least one residue kind / size > 0; distinct = (kinds, credential mode, history, listing) or (size, pattern, reader, attack results)",
			Bound:       map[string]any{"max_kinds": maxKinds, "tmpfs_mounts": c13tmpfs},
			Assumptions: []string{"writable bind mounts are the caller's directories and are not expected to be emptied", "mode and mtime of a tmpfs mount root are not entries"},
			SplitDepth:  3,
			Workers:     4,
			Horizon:     120 * time.Second,
		}
		spec.Init = func() error { devnull(); return nil }
		spec.Fini = func() { c13drop(); cleanupTmp() }
		spec.Body = func(x *mc.X) {
			switch x.Choose(3, "part") {
			case 1:
				c13memfd(x)
				return
			case 2:
				// a Reset that cannot succeed: the init is short of descriptors (its open-file limit is lowered from the
				// host side) while a program left a directory chain deeper than that. Reset may fail — but then it says so
				cred := x.Bool("credential-switch")
				kinds := []string{"d", "dh", "dm"}[x.Choose(3, "residue")]
				if x.Dry() {
					return
				}
				c13shortage = true
				defer func() { c13shortage = false }()
				c13reset(x, kinds, cred, false, false)
				return
			}
			n := x.Choose(maxKinds+1, "kinds")
			cred, twoRuns := false, false
			if tier == "thorough" || n <= 2 {
				cred = x.Bool("credential-switch")
				twoRuns = x.Bool("two-runs")
			}
			var kinds []byte
			last := -1
			for i := 0; i < n; i++ {
				remaining := len(c13kinds) - (last + 1) - (n - 1 - i)
				if remaining <= 0 {
					return
				}
				k := last + 1 + x.Choose(remaining, "kind")
				kinds = append(kinds, c13kinds[k])
				last = k
			}
			// how the (last) run ends: by itself, or refused by the caller's sync callback after the program already ran
			// (sync after exec) — the residue is the same, the container's bookkeeping of the run is not
			refused := false
			if n >= 1 && (tier == "thorough" || n <= 2) {
				refused = x.Bool("run-refused-after-exec")
			}
			initCmd := false
			if n == 1 {
				initCmd = x.Bool("environment-built-with-an-init-command")
			}
			if x.Dry() {
				return
			}
			c13initCmd = initCmd
			defer func() { c13initCmd = false }()
			c13reset(x, string(kinds), cred, twoRuns, refused)
		}
		return spec
	}
}

var c13envs = map[string]*c12env{}

// c13initCmd: the environment is built with an init command (a rarely used builder option: the init runs a program of the
// caller's before it serves requests); nothing about what programs can write to, or what Reset cleans, may depend on it
var c13initCmd bool

func c13drop() {
	for k, e := range c13envs {
		e.c.Destroy()
		delete(c13envs, k)
	}
}

func c13get(cred bool) (*c12env, error) {
	key := fmt.Sprint(cred, c13initCmd)
	if e := c13envs[key]; e != nil {
		return e, nil
	}
	before := map[int]bool{}
	for _, p := range childInits(os.Getpid()) {
		before[p] = true
	}
	c, err := newContainer(func(b *container.Builder) {
		b.Mounts = c13mounts()
		if cred {
			b.CredGenerator = fixedCred{}
		}
		if c13initCmd {
			// os/exec in the init needs /dev/null
			b.Mounts = append(b.Mounts, mount.Mount{Source: "/dev/null", Target: "dev/null", Flags: syscall.MS_BIND})
			b.InitCommand = []string{"/probe/burn", "exit", "0"}
		}
	})
	if err != nil {
		return nil, err
	}
	e := &c12env{c: c}
	for _, p := range childInits(os.Getpid()) {
		if !before[p] {
			e.initPid = p
		}
	}
	c13envs[key] = e
	return e, nil
}

// c13shortage: before Reset the init's open-file limit is lowered to 24 (the deep chain of kind d has 40 levels)
var c13shortage bool

func c13reset(x *mc.X, kinds string, cred, twoRuns, refused bool) {
	var names []string
	for i := 0; i < len(kinds); i++ {
		names = append(names, c13kindName[kinds[i]])
	}
	x.Note("residue", names)
	x.Note("credential-switch", cred)
	x.Note("history", map[bool]string{false: "run, Reset", true: "run, run, Reset"}[twoRuns])
	e, err := c13get(cred)
	if err != nil {
		x.Failf("C13/harness", "%v", err)
		return
	}
	root := fmt.Sprintf("/proc/%d/root", e.initPid)
	dirs := []string{"/w", "/tmp", "/w/inner", "/big", "/wide", "/tmp2", "/gl[0]b", "/st*r?", "/sp ace"}
	if cred {
		// the program runs under the container uid: make the mount roots writable for it (the caller's job)
		for _, d := range dirs {
			os.Chmod(root+d, 0777)
		}
	}
	count := func() int {
		n := 0
		for _, d := range dirs {
			n += len(listDir(root + d))
		}
		return n
	}
	run := func(k string, refuse bool) runner.Result {
		ctx, cancel := context.WithTimeout(context.Background(), 60*time.Second)
		defer cancel()
		// the program also tries its luck outside the declared writable mounts: in the root and in /dev
		// … and in a directory the default mask list hides (proc is mounted: /proc/acpi is covered by an empty mount)
		p := execveParam(append(append([]string{"/probe/fsgen", k}, dirs...), "/", "/dev", "/proc/acpi"))
		if refuse {
			p.SyncAfterExec = true
			p.SyncFunc = func(int) error {
				// the program is already running: let it leave its residue (entry count > 0 and stable), then refuse the run
				last, same := -1, 0
				waitUntil(10*time.Second, func() bool {
					c := count()
					if c > 0 && c == last {
						same++
					} else {
						same = 0
					}
					last = c
					time.Sleep(10 * time.Millisecond)
					return same >= 5
				})
				return errCallback
			}
		}
		return e.c.Execve(ctx, p)
	}
	x.Note("last-run-refused-after-exec", refused)
	x.Note("init-command", c13initCmd)
	outside := func() string { return fmt.Sprint(listDir(root+"/"), listDir(root+"/dev"), listDir(root+"/proc/acpi")) }
	outsideBefore := outside()
	if kinds != "" {
		first, second := kinds, "hx"
		res := run(first, refused && !twoRuns)
		if refused && !twoRuns {
			if res.Status != runner.StatusRunnerError {
				x.Failf("C13/harness", "refused run of fsgen %q ended %v %s", kinds, res.Status, res.Error)
				c13drop()
				return
			}
		} else if res.Status != runner.StatusNormal {
			x.Failf("C13/harness", "fsgen %q ended %v %s", kinds, res.Status, res.Error)
			c13drop()
			return
		}
		if twoRuns {
			run(second, refused) // a second program adds its own residue on top
		}
	}
	created := 0
	for _, d := range dirs {
		created += len(listDir(root + d))
	}
	if c13shortage {
		x.Note("init-descriptor-limit", 24)
		lim := unix.Rlimit{Cur: 24, Max: 24}
		if err := unix.Prlimit(e.initPid, unix.RLIMIT_NOFILE, &lim, nil); err != nil {
			x.Failf("C13/harness", "prlimit: %v", err)
			return
		}
		defer c13drop() // this environment is not used again
	}
	var rerr error
	if !withTimeout(horizon*3, func() { rerr = e.c.Reset() }) {
		x.Failf("C13/reset/hangs/"+strings.Join(names, "+"), "Reset did not return after residue %v", names)
		c13drop()
		return
	}
	left := map[string][]string{}
	total := 0
	for _, d := range dirs {
		l := listDir(root + d)
		if d == "/w" {
			// the nested tmpfs mount point itself is part of the configuration, not residue
			var f []string
			for _, n := range l {
				if n != "inner" {
					f = append(f, n)
				}
			}
			l = f
		}
		if len(l) > 0 {
			left[d] = l
			total += len(l)
		}
	}
	if kinds != "" {
		x.Distinct(fmt.Sprint(kinds, cred, twoRuns, refused, c13initCmd, left, rerr))
	}
	if now := outside(); now != outsideBefore {
		x.Failf("C13/reset/entries-survive-outside-the-declared-mounts", "after residue %v (credential switch %v, init command %v) and Reset, the root, /dev and the masked /proc/acpi of the container list %s, before the run they listed %s: a program wrote where nothing is declared writable, and Reset does not look there", names, cred, c13initCmd, now, outsideBefore)
		c13drop()
		return
	}
	x.Outcome(fmt.Sprintf("reset:err=%v:left=%d:created>0=%v", rerr != nil, total, created > 0))
	if kinds != "" && created == 0 {
		x.Failf("C13/harness", "fsgen %q created nothing", kinds)
	}
	if c13shortage && rerr != nil {
		// the Reset could not be carried out and said so: the caller knows not to use the environment again
		x.Outcome(fmt.Sprintf("reset-under-shortage:reported-failure:left=%d", total))
		return
	}
	if total > 0 {
		key := "C13/reset/entries-survive/" + strings.Join(names, "+")
		if c13shortage {
			key = "C13/reset/silent-failure(init short of descriptors)/" + strings.Join(names, "+")
		}
		if rerr != nil {
			key = "C13/reset/entries-survive-with-error/" + strings.Join(names, "+")
		}
		x.Failf(key, "after residue %v (credential switch %v, two runs %v, last run refused by the sync callback after exec %v) Reset returned %v and these entries remain: %v", names, cred, twoRuns, refused, rerr, left)
		c13drop() // do not let this residue leak into later executions
		return
	}
	if rerr != nil {
		x.Failf("C13/reset/error-but-clean/"+strings.Join(names, "+"), "Reset returned %v although nothing is left", rerr)
	}
	if strings.Contains(kinds, "o") {
		// the process that held a file open is gone with the run; nothing to do
	}
}

// ---- memfd

type slowReader struct {
	b    []byte
	step int
	fail int // fail after this many bytes (-1 never)
	pos  int
}

func (r *slowReader) Read(p []byte) (int, error) {
	if r.fail >= 0 && r.pos >= r.fail {
		return 0, errors.New("reader failed midway")
	}
	if r.pos >= len(r.b) {
		return 0, io.EOF
	}
	n := r.step
	if n > len(p) {
		n = len(p)
	}
	if r.pos+n > len(r.b) {
		n = len(r.b) - r.pos
	}
	if r.fail >= 0 && r.pos+n > r.fail {
		n = r.fail - r.pos
	}
	copy(p, r.b[r.pos:r.pos+n])
	r.pos += n
	return n, nil
}

func c13pattern(kind string, n int) []byte {
	b := make([]byte, n)
	for i := range b {
		switch kind {
		case "ff":
			b[i] = 0xff
		case "counter":
			b[i] = byte(i*7 + i>>8)
		}
	}
	return b
}

func c13memfd(x *mc.X) {
	mode := x.Pick("memfd", "copy-and-attack", "exec-and-attack", "reader-fails")
	switch mode {
	case "copy-and-attack":
		sizes := []int{0, 1, 4095, 4096, 4097, 65536, 1<<20 + 1}
		size := sizes[x.Choose(len(sizes), "size")]
		pat := x.Pick("pattern", "zero", "ff", "counter")
		rd := x.Pick("reader", "whole", "one-byte-at-a-time", "7-bytes-at-a-time", "bytes.Reader-advanced", "SectionReader-window", "file-at-offset", "bytes.Buffer", "LimitedReader")
		if x.Dry() {
			return
		}
		data := c13pattern(pat, size)
		var r io.Reader = bytes.NewReader(data)
		// readers that know a size or a position of their own: the supplied bytes are what the reader still has to give
		junk := []byte("JUNK-BEFORE-THE-PAYLOAD")
		switch rd {
		case "bytes.Reader-advanced":
			br := bytes.NewReader(append(append([]byte{}, junk...), data...))
			br.Seek(int64(len(junk)), io.SeekStart)
			r = br
		case "SectionReader-window":
			whole := append(append(append([]byte{}, junk...), data...), junk...)
			sr := io.NewSectionReader(bytes.NewReader(whole), int64(len(junk)), int64(len(data)))
			if size > 2 {
				// partly consumed, and the payload is what is left
				head := make([]byte, 2)
				io.ReadFull(sr, head)
				data = data[2:]
			}
			r = sr
		case "file-at-offset":
			tf, err := os.CreateTemp(tmpRoot(), "c13src")
			if err != nil {
				x.Failf("C13/harness", "%v", err)
				return
			}
			defer os.Remove(tf.Name())
			defer tf.Close()
			tf.Write(junk)
			tf.Write(data)
			tf.Seek(int64(len(junk)), io.SeekStart)
			r = tf
		case "bytes.Buffer":
			bb := bytes.NewBuffer(append(append([]byte{}, junk...), data...))
			bb.Next(len(junk))
			r = bb
		case "LimitedReader":
			r = io.LimitReader(bytes.NewReader(append(append([]byte{}, data...), junk...)), int64(len(data)))
		}
		switch rd {
		case "one-byte-at-a-time":
			if size > 70000 {
				x.Outcome("skipped:slow")
				return
			}
			r = &slowReader{b: data, step: 1, fail: -1}
		case "7-bytes-at-a-time":
			r = &slowReader{b: data, step: 7, fail: -1}
		}
		before := fdSet()
		f, err := memfd.DupToMemfd("verif", r)
		if err != nil {
			x.Failf("C13/memfd/copy-failed", "size %d: %v", size, err)
			return
		}
		ctx := fmt.Sprintf("memfd size %d pattern %s reader %s", size, pat, rd)
		c13checkSealed(x, ctx, f, data)
		// attacks by the holder of the descriptor
		fd := int(f.Fd())
		results := c13attack(fd)
		c13checkSealed(x, ctx+" after attacks "+fmt.Sprint(results), f, data)
		f.Close()
		if n := len(fdSet()) - len(before); n != 0 {
			x.Failf("C13/memfd/descriptor-leak", "%s: %d descriptors more than before", ctx, n)
		}
		if size > 0 {
			x.Distinct(fmt.Sprint(size, pat, rd, results))
		}
		x.Outcome("memfd:" + fmt.Sprint(results))
	case "reader-fails":
		at := []int{0, 1, 4096, 70000}[x.Choose(4, "fail-after")]
		if x.Dry() {
			return
		}
		before := fdSet()
		f, err := memfd.DupToMemfd("verif", &slowReader{b: c13pattern("counter", 100000), step: 4096, fail: at})
		if err == nil {
			f.Close()
			x.Failf("C13/memfd/reader-error-swallowed", "a reader failing after %d bytes produced a sealed file without error", at)
		}
		if n := len(fdSet()) - len(before); n != 0 {
			x.Failf("C13/memfd/descriptor-leak-on-error", "reader failing after %d bytes: %d descriptors leaked", at, n)
		}
		x.Distinct(fmt.Sprint("fail", at, err != nil))
		x.Outcome("memfd-reader-fails")
	case "exec-and-attack":
		setup := x.Pick("runner", "container", "container-syncafter")
		if x.Dry() {
			return
		}
		exe, err := os.ReadFile(probe("memattack"))
		if err != nil {
			x.Failf("C13/harness", "%v", err)
			return
		}
		ef, err := memfd.DupToMemfd("exe", bytes.NewReader(exe))
		if err != nil {
			x.Failf("C13/memfd/copy-failed", "%v", err)
			return
		}
		defer ef.Close()
		data := c13pattern("counter", 70001)
		df, err := memfd.DupToMemfd("data", bytes.NewReader(data))
		if err != nil {
			x.Failf("C13/memfd/copy-failed", "%v", err)
			return
		}
		defer df.Close()
		c, err := c09pool.get()
		if err != nil {
			x.Failf("C13/harness", "%v", err)
			return
		}
		out, _ := os.CreateTemp(tmpRoot(), "attack")
		defer os.Remove(out.Name())
		defer out.Close()
		p := execveParam([]string{"/probe/burn"}) // argv[0] must resolve in the container even when the image comes from ExecFile
		p.ExecFile = ef.Fd()
		p.Files = []uintptr{devnull(), out.Fd(), devnull(), df.Fd()}
		p.SyncAfterExec = setup == "container-syncafter"
		ctx, cancel := context.WithTimeout(context.Background(), 30*time.Second)
		res := c.Execve(ctx, p)
		cancel()
		log, _ := os.ReadFile(out.Name())
		if res.Status != runner.StatusNormal || !bytes.Contains(log, []byte("fd3 write")) {
			x.Failf("C13/memfd/exec-failed", "program exec'ed from the sealed file: %v %s; it said %q", res.Status, res.Error, string(log))
			c09pool.drop()
			return
		}
		c13checkSealed(x, "executable image after the program attacked /proc/self/exe", ef, exe)
		c13checkSealed(x, "second sealed file after the program attacked descriptor 3", df, data)
		x.Distinct(fmt.Sprint(setup, string(log)))
		x.Outcome("memfd-exec:" + setup)
	}
}

func c13checkSealed(x *mc.X, ctx string, f *os.File, want []byte) {
	fd := int(f.Fd())
	off, _ := unix.Seek(fd, 0, io.SeekCurrent)
	if off != 0 && !strings.Contains(ctx, "after") {
		x.Failf("C13/memfd/not-at-start", "%s: file offset is %d", ctx, off)
	}
	seals, err := unix.FcntlInt(uintptr(fd), unix.F_GET_SEALS, 0)
	wantSeals := unix.F_SEAL_SEAL | unix.F_SEAL_SHRINK | unix.F_SEAL_GROW | unix.F_SEAL_WRITE
	if err != nil || seals&wantSeals != wantSeals {
		x.Failf("C13/memfd/seals-missing", "%s: seals %#x (%v), expected at least %#x", ctx, seals, err, wantSeals)
	}
	got := make([]byte, len(want)+16)
	n, _ := unix.Pread(fd, got, 0)
	var st unix.Stat_t
	unix.Fstat(fd, &st)
	if n != len(want) || !bytes.Equal(got[:n], want) || int(st.Size) != len(want) {
		x.Failf("C13/memfd/content-changed", "%s: %d bytes readable (size %d), %d supplied; first difference at %d", ctx, n, st.Size, len(want), firstDiff(got[:n], want))
	}
}

func firstDiff(a, b []byte) int {
	for i := 0; i < len(a) && i < len(b); i++ {
		if a[i] != b[i] {
			return i
		}
	}
	if len(a) != len(b) {
		if len(a) < len(b) {
			return len(a)
		}
		return len(b)
	}
	return -1
}

// c13attack tries every modification on the descriptor; returns which attempts reported success
func c13attack(fd int) []string {
	var ok []string
	try := func(name string, err error) {
		if err == nil {
			ok = append(ok, name)
		}
	}
	_, err := unix.Write(fd, []byte("HACKED"))
	try("write", err)
	_, err = unix.Pwrite(fd, []byte("HACKED"), 0)
	try("pwrite", err)
	try("ftruncate-0", unix.Ftruncate(fd, 0))
	try("ftruncate-grow", unix.Ftruncate(fd, 1<<24))
	try("fallocate", unix.Fallocate(fd, 0, 0, 1<<20))
	m, err := unix.Mmap(fd, 0, 4096, unix.PROT_READ|unix.PROT_WRITE, unix.MAP_SHARED)
	try("mmap-shared-write", err)
	if err == nil {
		copy(m, "HACKED")
		unix.Munmap(m)
	}
	_, err = unix.FcntlInt(uintptr(fd), unix.F_ADD_SEALS, 0)
	try("add-seals(0)", err)
	w, err := unix.Open(fmt.Sprintf("/proc/self/fd/%d", fd), unix.O_WRONLY, 0)
	if err == nil {
		_, e := unix.Write(w, []byte("HACKED"))
		try("reopen-write", e)
		try("reopen-ftruncate", unix.Ftruncate(w, 0))
		unix.Close(w)
	}
	w, err = unix.Open(fmt.Sprintf("/proc/self/fd/%d", fd), unix.O_RDWR|unix.O_TRUNC, 0)
	if err == nil {
		ok = append(ok, "reopen-O_TRUNC")
		unix.Close(w)
	}
	unix.Seek(fd, 0, io.SeekStart)
	return ok
}
