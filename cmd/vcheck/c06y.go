package main

import (
	"fmt"
	"os"
	"path/filepath"
	"syscall"
	"time"

	"github.com/criyle/go-sandbox/pkg/forkexec"
	"golang.org/x/sys/unix"
	"verif/mc"
)

// C06, family "descriptor opened while a launched child is still stopped": with StopBeforeSeccomp (or Seccomp+Ptrace)
// Start returns while the child has not exec'ed yet; the launcher keeps waiting for the exec in the background. What the
// caller opens in that window — it gets the lowest free number, typically the one the launcher's closed channel end had —
// belongs to the caller: it must still be the same open file after the child has exec'ed and ended, and a later launch
// that lists it must hand exactly that file to its program.
func c06stoppedWindow(x *mc.X) {
	mode := x.Pick("launch", "stop-before-seccomp", "stop-before-seccomp+seccomp")
	opened := 1 + x.Choose(3, "descriptors-opened-in-the-window")
	if x.Dry() {
		return
	}
	dir := tmpDir("c06y")
	defer os.RemoveAll(dir)
	r := &forkexec.Runner{Args: []string{probe("burn"), "exit", "0"}, Env: []string{}, Files: stdioNull(), StopBeforeSeccomp: true}
	if mode == "stop-before-seccomp+seccomp" {
		r.Seccomp = allowAll().SockFprog()
	}
	pid, err := r.Start()
	if err != nil {
		x.Failf("C06/harness", "start: %v", err)
		return
	}
	// the child is stopped (or about to stop itself) before its exec; the caller goes on with its own business
	waitUntil(2*time.Second, func() bool {
		b, _ := os.ReadFile(fmt.Sprintf("/proc/%d/stat", pid))
		return len(b) > 0 && stateOf(string(b)) == 'T'
	})
	var files []*os.File
	var ids []ident
	for i := 0; i < opened; i++ {
		f, err := os.Create(filepath.Join(dir, fmt.Sprintf("own-%d", i)))
		if err != nil {
			x.Failf("C06/harness", "%v", err)
			return
		}
		defer f.Close()
		id, _ := fdIdent(int(f.Fd()))
		files, ids = append(files, f), append(ids, id)
	}
	syscall.Kill(pid, syscall.SIGCONT)
	var ws syscall.WaitStatus
	if !withTimeout(horizon, func() { syscall.Wait4(pid, &ws, 0, nil) }) {
		syscall.Kill(pid, syscall.SIGKILL)
		x.Failf("C06/harness", "the stopped child did not end after SIGCONT")
		return
	}
	// the launcher's background wait ends with the child's exec; give it a moment (it only shortens what is seen)
	broken := -1
	waitUntil(300*time.Millisecond, func() bool {
		for i, f := range files {
			if id, ok := fdIdent(int(f.Fd())); !ok || id != ids[i] {
				broken = i
				return true
			}
		}
		return false
	})
	ctx := fmt.Sprintf("%s, %d descriptor(s) opened between Start and the child's exec", mode, opened)
	if broken >= 0 {
		x.Failf("C06/stopped-window/callers-descriptor-closed", "%s: descriptor %d of the caller, opened after Start returned, no longer refers to its file after the child exec'ed (the launcher closed a number it no longer owned)", ctx, files[broken].Fd())
		x.Outcome("stopped-window:broken")
		return
	}
	// a later launch that lists them gets exactly these files
	list := []uintptr{devnull(), devnull(), devnull()}
	for _, f := range files {
		list = append(list, f.Fd())
	}
	out := filepath.Join(dir, "r.json")
	rep, err := c06report(&forkexec.Runner{Args: []string{probe("report"), "--outfile=" + out}, Env: []string{}, Files: list}, out)
	if err != nil {
		x.Failf("C06/stopped-window/later-launch-failed", "%s: a later launch listing these descriptors failed: %v", ctx, err)
		return
	}
	for i, id := range ids {
		found := false
		for _, f := range rep.Fds {
			if f.Fd == 3+i && (ident{f.Dev, f.Ino}) == id {
				found = true
			}
		}
		if !found {
			x.Failf("C06/stopped-window/wrong-file", "%s: slot %d of the later program is not the file the caller listed", ctx, 3+i)
		}
	}
	x.Distinct(fmt.Sprint(mode, opened, len(rep.Fds)))
	x.Outcome("stopped-window:intact")
	_ = unix.O_RDONLY
}

func stateOf(stat string) byte {
	for i := len(stat) - 1; i >= 0; i-- {
		if stat[i] == ')' && i+2 < len(stat) {
			return stat[i+2]
		}
	}
	return 0
}

// c06report starts r (a report probe writing to out), waits for it and returns what it reported.
func c06report(r *forkexec.Runner, out string) (*report, error) {
	pid, err := r.Start()
	if err != nil {
		return nil, err
	}
	var ws syscall.WaitStatus
	if !withTimeout(horizon, func() { syscall.Wait4(pid, &ws, 0, nil) }) {
		syscall.Kill(pid, syscall.SIGKILL)
		return nil, fmt.Errorf("the program did not end")
	}
	return readReport(out)
}
