package main

import (
	"context"
	"errors"
	"fmt"
	"os"
	"os/exec"
	"path/filepath"
	"strconv"
	"strings"
	"syscall"
	"time"

	"github.com/criyle/go-sandbox/container"
	"github.com/criyle/go-sandbox/pkg/forkexec"
	"github.com/criyle/go-sandbox/pkg/mount"
	"github.com/criyle/go-sandbox/pkg/rlimit"
	"github.com/criyle/go-sandbox/pkg/seccomp"
	"github.com/criyle/go-sandbox/ptracer"
	"github.com/criyle/go-sandbox/runner"
	"github.com/criyle/go-sandbox/runner/unshare"
	"golang.org/x/sys/unix"
	"verif/mc"
)

// C07 — sync gate: no target code before approval; failed launches never run and leave no child.

type c07cfg struct {
	sync, seccomp, userns, pivot, ucas bool
	// id mappings configured although no user namespace is requested (legal: they are documented as meaningful only
	// with one): nothing about the launch may change, in particular not the hand-shake around the callback
	strayMaps bool
}

func (c c07cfg) String() string {
	s := ""
	for _, f := range []struct {
		b bool
		n string
	}{{c.sync, "sync"}, {c.seccomp, "seccomp"}, {c.userns, "userns"}, {c.pivot, "pivot+mounts"}, {c.ucas, "cgroup-after-sync"}, {c.strayMaps, "id-maps-without-userns"}} {
		if f.b {
			s += "+" + f.n
		}
	}
	if s == "" {
		return "plain"
	}
	return s[1:]
}

var c07stepNames = map[forkexec.ErrorLocation]string{
	forkexec.LocClone: "clone", forkexec.LocUnshareUserRead: "unshare_user_read", forkexec.LocSetGroups: "setgroups", forkexec.LocSetGid: "setgid", forkexec.LocSetUid: "setuid",
	forkexec.LocDup3: "dup3", forkexec.LocIoctl: "ioctl", forkexec.LocMount: "mount", forkexec.LocMountMkdir: "mount(mkdir)", forkexec.LocMountTmpfs: "mount(tmpfs)",
	forkexec.LocChdir: "chdir", forkexec.LocSetRlimit: "setrlimt", forkexec.LocSeccomp: "seccomp", forkexec.LocExecve: "execve",
	forkexec.LocSetHostName: "sethostname", forkexec.LocSetDomainName: "setdomainname",
}

// fault kinds and the launch step (location string) each must be reported at
var c07faults = []struct {
	name string
	loc  forkexec.ErrorLocation
	idx  int
	need string // "", "userns", "pivot", "sync"
}{
	{"none", 0, 0, ""},
	{"clone(bad cgroup fd)", forkexec.LocClone, 0, ""},
	{"idmap(size 0)", forkexec.LocUnshareUserRead, 0, "userns"},
	{"setgroups(unmapped)", forkexec.LocSetGroups, 0, "userns"},
	{"setgroups(denied in the namespace)", forkexec.LocSetGroups, 0, "userns"},
	{"sethostname(65 bytes)", forkexec.LocSetHostName, 0, "userns"},
	{"setdomainname(65 bytes)", forkexec.LocSetDomainName, 0, "userns"},
	{"setgid(unmapped)", forkexec.LocSetGid, 0, "userns"},
	{"setuid(unmapped)", forkexec.LocSetUid, 0, "userns"},
	{"dup3(closed fd)", forkexec.LocDup3, 0, ""},
	{"ctty(not a tty)", forkexec.LocIoctl, 0, ""},
	{"mount0(missing source)", forkexec.LocMount, 0, "pivot"},
	{"mount1(missing source)", forkexec.LocMount, 1, "pivot"},
	{"mount2(missing source)", forkexec.LocMount, 2, "pivot"},
	{"mkdir(file in the way)", forkexec.LocMountMkdir, 1, "pivot"},
	{"mount3(planted link at the third component of its target)", forkexec.LocMountMkdir, 3, "pivot"},
	{"pivot(root is a file)", forkexec.LocMountTmpfs, 0, "pivot"},
	{"chdir(missing)", forkexec.LocChdir, 0, ""},
	{"rlimit0(soft>hard)", forkexec.LocSetRlimit, 0, ""},
	{"rlimit1(soft>hard)", forkexec.LocSetRlimit, 1, ""},
	{"seccomp(bad filter)", forkexec.LocSeccomp, 0, ""},
	{"callback(error)", 0, 0, "sync"},
	{"execve(ENOENT)", forkexec.LocExecve, 0, ""},
	{"execve(EACCES)", forkexec.LocExecve, 0, ""},
	{"execve(ENOEXEC)", forkexec.LocExecve, 0, ""},
}

var errCallback = errors.New("callback says no")

type c07scene struct {
	dir, marker, outDir string
	r                   *forkexec.Runner
	cleanup             func()
}

// c07build prepares a Runner for cfg with fault injected through real inputs.
func c07build(cfg c07cfg, fault string, dir string) (*c07scene, error) {
	if dir == "" {
		dir = tmpDir("c07")
	}
	os.Chmod(dir, 0777)
	sc := &c07scene{dir: dir, cleanup: func() { os.RemoveAll(dir) }}
	outDir := filepath.Join(dir, "out")
	os.MkdirAll(outDir, 0777)
	os.Chmod(outDir, 0777)
	sc.outDir = outDir
	exe, marker := probe("report"), filepath.Join(outDir, "marker")
	sc.marker = marker
	r := &forkexec.Runner{Env: []string{}, Files: stdioNull(), UnshareCgroupAfterSync: cfg.ucas, NoNewPrivs: true}
	if cfg.userns {
		r.CloneFlags |= unix.CLONE_NEWUSER
		r.UIDMappings = []syscall.SysProcIDMap{{ContainerID: 0, HostID: 0, Size: 1000}}
		r.GIDMappings = []syscall.SysProcIDMap{{ContainerID: 0, HostID: 0, Size: 1000}}
		r.GIDMappingsEnableSetgroups = true
	}
	if cfg.strayMaps && !cfg.userns {
		r.UIDMappings = []syscall.SysProcIDMap{{ContainerID: 0, HostID: 0, Size: 1000}}
		r.GIDMappings = []syscall.SysProcIDMap{{ContainerID: 0, HostID: 0, Size: 1000}}
	}
	if cfg.pivot {
		r.CloneFlags |= unix.CLONE_NEWNS
		root := filepath.Join(dir, "root")
		os.Mkdir(root, 0755)
		b := mount.NewBuilder().WithBind(binDir(), "probe", true).WithBind(outDir, "out", false).WithTmpfs("w", "")
		switch fault {
		case "mount0(missing source)":
			b.Mounts[0].Source = filepath.Join(dir, "nonexistent-src")
			os.Mkdir(b.Mounts[0].Source, 0755) // Build() stats the source; removed below, before the launch
		case "mount1(missing source)":
			b.Mounts[1].Source = filepath.Join(dir, "nonexistent-src")
			os.Mkdir(b.Mounts[1].Source, 0755)
		case "mount2(missing source)":
			b.Mounts[2].FsType = "nosuchfs" // third entry is the tmpfs: an unknown file-system type
		case "mkdir(file in the way)":
			b.Mounts[1].Target = "probe/sub/out" // parent "probe" is a read-only bind by then: mkdir fails
		case "mount3(planted link at the third component of its target)":
			// a fourth mount whose target runs through the writable bind "out", where a symbolic link sits at a/lnk: the
			// refusal must name mount 3 (the position of the link inside the path is another number)
			os.MkdirAll(filepath.Join(outDir, "a"), 0755)
			os.Symlink(filepath.Join(dir, "elsewhere"), filepath.Join(outDir, "a", "lnk"))
			os.Mkdir(filepath.Join(dir, "src3"), 0755)
			b.WithBind(filepath.Join(dir, "src3"), "out/a/lnk/ref", true)
		}
		sp, err := b.Build()
		if err != nil {
			return nil, err
		}
		os.Remove(filepath.Join(dir, "nonexistent-src"))
		r.PivotRoot, r.Mounts = root, sp
		if fault == "pivot(root is a file)" {
			os.Remove(root)
			os.WriteFile(root, nil, 0644)
		}
		exe, marker = "/probe/report", "/out/marker"
	}
	if cfg.seccomp {
		r.Seccomp = allowAll().SockFprog()
	}
	switch fault {
	case "clone(bad cgroup fd)":
		r.CgroupFd = devnull()
	case "idmap(size 0)":
		r.UIDMappings = []syscall.SysProcIDMap{{ContainerID: 0, HostID: 0, Size: 0}}
	case "setgroups(unmapped)":
		r.Credential = &syscall.Credential{Uid: 10, Gid: 10, Groups: []uint32{70000}}
	case "setgroups(denied in the namespace)":
		// the mapping denies setgroups (the default): a credential that asks for groups cannot be honoured
		r.GIDMappingsEnableSetgroups = false
		r.Credential = &syscall.Credential{Uid: 10, Gid: 10, Groups: []uint32{20, 30}}
	case "sethostname(65 bytes)":
		r.CloneFlags |= unix.CLONE_NEWUTS
		r.HostName = strings.Repeat("h", 65)
	case "setdomainname(65 bytes)":
		r.CloneFlags |= unix.CLONE_NEWUTS
		r.DomainName = strings.Repeat("d", 65)
	case "setgid(unmapped)":
		r.Credential = &syscall.Credential{Uid: 10, Gid: 70000}
	case "setuid(unmapped)":
		r.Credential = &syscall.Credential{Uid: 70000, Gid: 10}
	case "dup3(closed fd)":
		r.Files = []uintptr{devnull(), 777, devnull()}
	case "ctty(not a tty)":
		r.CTTY = true
	case "chdir(missing)":
		r.WorkDir = "/nonexistent-workdir-c07"
	case "rlimit0(soft>hard)":
		r.RLimits = []rlimit.RLimit{{Res: unix.RLIMIT_NOFILE, Rlim: syscall.Rlimit{Cur: 100, Max: 10}}, {Res: unix.RLIMIT_CORE, Rlim: syscall.Rlimit{}}}
	case "rlimit1(soft>hard)":
		r.RLimits = []rlimit.RLimit{{Res: unix.RLIMIT_CORE, Rlim: syscall.Rlimit{}}, {Res: unix.RLIMIT_NOFILE, Rlim: syscall.Rlimit{Cur: 100, Max: 10}}}
	case "seccomp(bad filter)":
		bad := seccomp.Filter{{Code: 0xffff, K: 0}}
		r.Seccomp = bad.SockFprog()
	case "execve(ENOENT)":
		exe = filepath.Join(filepath.Dir(exe), "no-such-program")
	case "execve(EACCES)":
		os.WriteFile(filepath.Join(outDir, "noexec"), []byte("#!/bin/true\n"), 0644)
		exe = filepath.Join(filepath.Dir(marker), "noexec")
	case "execve(ENOEXEC)":
		os.WriteFile(filepath.Join(outDir, "garbage"), []byte("\x01\x02\x03 this is not an executable\n"), 0755)
		exe = filepath.Join(filepath.Dir(marker), "garbage")
	}
	r.Args = []string{exe, "--marker=" + marker, "--nofds", "--out=1"}
	sc.r = r
	return sc, nil
}

func exeOf(pid int) string {
	l, _ := os.Readlink(fmt.Sprintf("/proc/%d/exe", pid))
	return l
}

func childrenOfSelf() map[int]bool {
	out := map[int]bool{}
	ents, _ := os.ReadDir("/proc/self/task")
	for _, e := range ents {
		b, _ := os.ReadFile("/proc/self/task/" + e.Name() + "/children")
		for _, f := range strings.Fields(string(b)) {
			n, _ := strconv.Atoi(f)
			out[n] = true
		}
	}
	return out
}

func init() {
	aux["c07sup"] = c07supervisor
	registry["C07"] = func(tier string) *mc.Spec {
		spec := &mc.Spec{
			Level: "fault_enumeration",
			Rule: "launch configurations (all subsets of {sync callback, seccomp, user namespace, pivot root + mounts, unshare-cgroup-after-sync}) × one failure induced by real inputs at every reachable launch step " +
				"(clone, id-map write, setgroups/setgid/setuid, dup3, ctty ioctl, mount k, mkdir, pivot, chdir, rlimit k, seccomp load, callback error, callback crash (supervisor killed inside the callback), execve ENOENT/EACCES/ENOEXEC) and no failure; " +
				"the same failure classes through the namespace runner, the tracer and container.Execve (sync before / after exec). non-trivial: a failure is injected; distinct = (runner, configuration, fault, observed error)",
			Bound:       map[string]any{"faults": len(c07faults), "configs": 32},
			Assumptions: []string{"the target creates a marker file as its very first act; a reaped child cannot run later, so marker absence after the call returned is final"},
			SplitDepth:  2,
			Workers:     4,
			Horizon:     60 * time.Second,
		}
		spec.Init = func() error {
			devnull()
			unix.Prctl(unix.PR_SET_CHILD_SUBREAPER, 1, 0, 0, 0)
			return nil
		}
		spec.Fini = func() { c09pool.drop(); cleanupTmp() }
		spec.Body = func(x *mc.X) {
			switch x.Pick("runner", "forkexec", "forkexec-callback-crash", "unshare", "tracer", "container") {
			case "forkexec":
				c07forkexec(x)
			case "forkexec-callback-crash":
				c07crash(x)
			case "unshare":
				c07unshare(x)
			case "tracer":
				c07tracer(x)
			case "container":
				c07container(x)
			}
		}
		return spec
	}
}

func c07pickCfg(x *mc.X) c07cfg {
	return c07cfg{sync: x.Bool("sync"), seccomp: x.Bool("seccomp"), userns: x.Bool("userns"), pivot: x.Bool("pivot"), ucas: x.Bool("ucas")}
}

func c07forkexec(x *mc.X) {
	fi := x.Choose(len(c07faults), "fault")
	f := c07faults[fi]
	cfg := c07pickCfg(x)
	if !cfg.userns && cfg.sync {
		cfg.strayMaps = x.Bool("id-mappings-without-user-namespace")
	}
	// long descriptor list whose scratch duplicates walk up to the internal socket (only for a few fault classes)
	long := false
	switch f.name {
	case "none", "chdir(missing)", "execve(ENOENT)", "callback(error)", "rlimit0(soft>hard)":
		long = x.Bool("long-descriptor-list")
	}
	x.Note("config", cfg.String())
	x.Note("fault", f.name)
	x.Note("long-list", long)
	if (f.need == "userns" && !cfg.userns) || (f.need == "pivot" && !cfg.pivot) || (f.need == "sync" && !cfg.sync) {
		x.Outcome("n/a")
		return
	}
	if x.Dry() {
		return
	}
	sc, err := c07build(cfg, f.name, "")
	if err != nil {
		x.Failf("C07/harness", "build scene: %v", err)
		return
	}
	defer sc.cleanup()
	if long {
		_, p1 := lowestFree2()
		n := p1 - 1
		if n >= 4 {
			sc.r.Files = make([]uintptr, n)
			for i := range sc.r.Files {
				sc.r.Files[i] = devnull()
				if i > int(devnull()) {
					sc.r.Files[i] = uintptr(i % 3) // entries below their slot index need a scratch duplicate
				}
			}
		}
	}
	ctxs := fmt.Sprintf("forkexec %s, fault %s, long list %v", cfg, f.name, long)
	self := exeOf(os.Getpid())
	cbPid := 0
	if cfg.sync {
		sc.r.SyncFunc = func(pid int) error {
			cbPid = pid
			if cfg.strayMaps {
				// a child that does not wait for the approval needs a moment to show it (a pause cannot accuse a child that waits)
				time.Sleep(100 * time.Millisecond)
			}
			if e := exeOf(pid); e != self {
				x.Failf("C07/forkexec/callback-after-exec", "%s: at the callback /proc/%d/exe is %q, not the launcher", ctxs, pid, e)
			}
			if _, err := os.Stat(sc.marker); err == nil {
				x.Failf("C07/forkexec/target-ran-before-approval", "%s: marker exists at callback time", ctxs)
			}
			if !childrenOfSelf()[pid] {
				x.Failf("C07/forkexec/callback-pid-not-child", "%s: callback pid %d is not a child of the caller", ctxs, pid)
			}
			if f.name == "callback(error)" {
				return errCallback
			}
			return nil
		}
	}
	before := childrenOfSelf()
	pid, err := sc.r.Start()
	if err == nil {
		if cbPid != 0 && cbPid != pid {
			x.Failf("C07/forkexec/callback-pid-differs", "%s: callback got %d, Start returned %d", ctxs, cbPid, pid)
		}
		var ws syscall.WaitStatus
		syscall.Wait4(pid, &ws, 0, nil)
		_, merr := os.Stat(sc.marker)
		x.Note("result", fmt.Sprintf("started, wait status %#x, marker present %v", uint32(ws), merr == nil))
		if f.name != "none" {
			x.Failf("C07/forkexec/fault-not-reported/"+f.name, "%s: Start succeeded (wait status %#x, marker present: %v)", ctxs, uint32(ws), merr == nil)
		} else if merr != nil {
			x.Failf("C07/forkexec/target-did-not-run", "%s: no failure injected but the marker was not written (status %#x)", ctxs, uint32(ws))
		}
		x.Outcome("started")
		return
	}
	x.Note("error", err.Error())
	if f.name != "none" {
		x.Distinct(fmt.Sprint("f", cfg, f.name, long, err))
	}
	x.Outcome("error:" + err.Error())
	if f.name == "none" {
		x.Failf("C07/forkexec/unexpected-failure", "%s: %v", ctxs, err)
		return
	}
	// the target never ran, and no child is left
	if _, e := os.Stat(sc.marker); e == nil {
		x.Failf("C07/forkexec/target-ran-despite-failure/"+f.name, "%s: marker exists although Start returned %v", ctxs, err)
	}
	after := childrenOfSelf()
	for p := range after {
		if !before[p] {
			x.Failf("C07/forkexec/child-left-behind/"+f.name, "%s: child %d still exists (state %s) when Start returned %v", ctxs, p, procState(p), err)
		}
	}
	if cbPid != 0 && pidExists(cbPid) {
		x.Failf("C07/forkexec/child-not-reaped/"+f.name, "%s: pid %d still exists after Start returned", ctxs, cbPid)
	}
	// the error names the failing step
	if f.name == "callback(error)" {
		if !errors.Is(err, errCallback) {
			x.Failf("C07/forkexec/callback-error-lost", "%s: returned %v instead of the callback's error", ctxs, err)
		}
		return
	}
	var ce forkexec.ChildError
	if !errors.As(err, &ce) {
		x.Failf("C07/forkexec/error-not-located/"+f.name, "%s: error %v (%T) does not name a launch step", ctxs, err, err)
		return
	}
	// the error TEXT names the step too (written down here, not taken from the library's own table)
	if want := c07stepNames[f.loc]; want != "" && !strings.HasPrefix(err.Error(), want) {
		x.Failf("C07/forkexec/step-not-named-in-the-text/"+f.name, "%s: the error reads %q, expected it to begin with %q", ctxs, err.Error(), want)
	}
	if ce.Location != f.loc || ce.Index != f.idx {
		x.Failf("C07/forkexec/wrong-step/"+f.name, "%s: reported step %v(%d) [%v], expected %v(%d)", ctxs, ce.Location, ce.Index, err, f.loc, f.idx)
	}
	if ce.Err == 0 {
		x.Failf("C07/forkexec/no-errno/"+f.name, "%s: ChildError without errno: %v", ctxs, err)
	}
}

func procState(pid int) string {
	b, err := os.ReadFile(fmt.Sprintf("/proc/%d/stat", pid))
	if err != nil {
		return "gone"
	}
	s := string(b)
	if i := strings.LastIndex(s, ") "); i >= 0 && i+2 < len(s) {
		return s[i+2 : i+3]
	}
	return "?"
}

// c07supervisor (aux role): launches with a sync callback that prints the child's pid and then kills its own process.
func c07supervisor(args []string) int {
	var cfg c07cfg
	fmt.Sscan(args[0], &cfg.seccomp)
	fmt.Sscan(args[1], &cfg.userns)
	fmt.Sscan(args[2], &cfg.pivot)
	fmt.Sscan(args[3], &cfg.ucas)
	cfg.sync = true
	dir := args[4]
	sc, err := c07build(cfg, "none", filepath.Join(dir, "scene"))
	if err != nil {
		fmt.Println("ERR", err)
		return 3
	}
	sc.r.SyncFunc = func(pid int) error {
		fmt.Printf("PID %d\n", pid)
		os.Stdout.Sync()
		syscall.Kill(os.Getpid(), syscall.SIGKILL)
		select {}
	}
	_, err = sc.r.Start()
	fmt.Println("ERR start returned", err)
	return 3
}

func c07crash(x *mc.X) {
	cfg := c07cfg{sync: true, seccomp: x.Bool("seccomp"), userns: x.Bool("userns"), pivot: x.Bool("pivot"), ucas: x.Bool("ucas")}
	x.Note("config", cfg.String())
	x.Note("fault", "supervisor killed inside the callback")
	if x.Dry() {
		return
	}
	dir := tmpDir("c07sup")
	os.Chmod(dir, 0777)
	defer os.RemoveAll(dir)
	self, _ := os.Executable()
	cmd := exec.Command(self, "c07sup", fmt.Sprint(cfg.seccomp), fmt.Sprint(cfg.userns), fmt.Sprint(cfg.pivot), fmt.Sprint(cfg.ucas), dir)
	out, _ := cmd.Output()
	var pid int
	if _, err := fmt.Sscanf(string(out), "PID %d", &pid); err != nil {
		x.Failf("C07/harness", "supervisor said %q", out)
		return
	}
	// the orphan is re-parented to this process (child subreaper); it must end by itself without running the target
	gone := waitUntil(horizon, func() bool {
		var ws syscall.WaitStatus
		syscall.Wait4(pid, &ws, syscall.WNOHANG, nil)
		return !pidExists(pid)
	})
	markers, _ := filepath.Glob(filepath.Join(dir, "scene", "out", "marker"))
	x.Distinct(fmt.Sprint("crash", cfg, gone, len(markers)))
	x.Outcome(fmt.Sprintf("crash:gone=%v,marker=%d", gone, len(markers)))
	if len(markers) > 0 {
		x.Failf("C07/forkexec/target-ran-without-approval", "forkexec %s: the supervisor died inside the callback and the target still executed (marker written)", cfg)
	}
	if !gone {
		syscall.Kill(pid, syscall.SIGKILL)
		x.Failf("C07/forkexec/unapproved-child-lingers", "forkexec %s: the supervisor died inside the callback and child %d is still there after the horizon (%s)", cfg, pid, exeOf(pid))
	}
}

func c07unshare(x *mc.X) {
	faults := []string{"none", "mount(missing source)", "chdir(missing)", "rlimit(soft>hard)", "callback(error)", "execve(ENOENT)", "seccomp(bad filter)"}
	wantLoc := map[string]string{"mount(missing source)": "mount", "chdir(missing)": "chdir", "rlimit(soft>hard)": "setrlimt", "execve(ENOENT)": "execve", "seccomp(bad filter)": "seccomp", "callback(error)": errCallback.Error()}
	f := x.Pick("fault", faults...)
	withSync := x.Bool("sync")
	if f == "callback(error)" && !withSync {
		x.Outcome("n/a")
		return
	}
	if x.Dry() {
		return
	}
	outDir := tmpDir("c07u")
	os.Chmod(outDir, 0777)
	defer os.RemoveAll(outDir)
	marker := filepath.Join(outDir, "marker")
	self := exeOf(os.Getpid())
	ctx, cancel := context.WithTimeout(context.Background(), 30*time.Second)
	defer cancel()
	res := runUnshare(ctx, []string{"/probe/report", "--marker=/w/marker", "--nofds"}, func(r *unshare.Runner) {
		r.Mounts = mustMounts(outDir)
		if withSync {
			r.SyncFunc = func(pid int) error {
				if e := exeOf(pid); e != self {
					x.Failf("C07/unshare/callback-after-exec", "at the callback /proc/%d/exe is %q", pid, e)
				}
				if _, err := os.Stat(marker); err == nil {
					x.Failf("C07/unshare/target-ran-before-approval", "marker exists at callback time")
				}
				if f == "callback(error)" {
					return errCallback
				}
				return nil
			}
		}
		switch f {
		case "mount(missing source)":
			src := filepath.Join(outDir, "gone")
			os.Mkdir(src, 0755)
			sp, _ := mount.NewBuilder().WithBind(binDir(), "probe", true).WithBind(src, "gone", true).WithBind(outDir, "w", false).Build()
			os.Remove(src)
			r.Mounts = sp
		case "chdir(missing)":
			r.WorkDir = "/nonexistent"
		case "rlimit(soft>hard)":
			r.RLimits = []rlimit.RLimit{{Res: unix.RLIMIT_NOFILE, Rlim: syscall.Rlimit{Cur: 100, Max: 10}}}
		case "execve(ENOENT)":
			r.Args[0] = "/probe/no-such-program"
		case "seccomp(bad filter)":
			r.Seccomp = seccomp.Filter{{Code: 0xffff}}
		}
	})
	_, merr := os.Stat(marker)
	x.Note("result", fmt.Sprintf("%s %q marker=%v", statusName(res.Status), res.Error, merr == nil))
	x.Distinct(fmt.Sprint("u", f, withSync, res.Status, res.Error))
	x.Outcome("unshare:" + statusName(res.Status))
	if f == "none" {
		if res.Status != runner.StatusNormal || merr != nil {
			x.Failf("C07/unshare/unexpected-failure", "no failure injected: %v %q marker=%v", res.Status, res.Error, merr == nil)
		}
		return
	}
	if merr == nil {
		x.Failf("C07/unshare/target-ran-despite-failure/"+f, "fault %s: the marker was written", f)
	}
	if res.Status != runner.StatusRunnerError || !strings.Contains(res.Error, wantLoc[f]) {
		x.Failf("C07/unshare/failure-not-named/"+f, "fault %s: result %v %q does not name the failing step %q", f, res.Status, res.Error, wantLoc[f])
	}
}

type c07nullHandler struct{}

func (c07nullHandler) Handle(*ptracer.Context) ptracer.TraceAction { return ptracer.TraceAllow }
func (c07nullHandler) Debug(v ...interface{})                      {}

func c07tracer(x *mc.X) {
	faults := []string{"none", "chdir(missing)", "rlimit(soft>hard)", "callback(error)", "execve(ENOENT)", "dup3(closed fd)"}
	f := x.Pick("fault", faults...)
	if x.Dry() {
		return
	}
	outDir := tmpDir("c07t")
	defer os.RemoveAll(outDir)
	marker := filepath.Join(outDir, "marker")
	self := exeOf(os.Getpid())
	ch := &forkexec.Runner{Args: []string{probe("report"), "--marker=" + marker, "--nofds"}, Env: []string{}, Files: stdioNull(), Seccomp: allowAll().SockFprog(), Ptrace: true,
		UnshareCgroupAfterSync: true}
	cbPid := 0
	ch.SyncFunc = func(pid int) error {
		cbPid = pid
		if e := exeOf(pid); e != self {
			x.Failf("C07/tracer/callback-after-exec", "at the callback /proc/%d/exe is %q", pid, e)
		}
		if _, err := os.Stat(marker); err == nil {
			x.Failf("C07/tracer/target-ran-before-approval", "marker exists at callback time")
		}
		if f == "callback(error)" {
			return errCallback
		}
		return nil
	}
	switch f {
	case "chdir(missing)":
		ch.WorkDir = "/nonexistent"
	case "rlimit(soft>hard)":
		ch.RLimits = []rlimit.RLimit{{Res: unix.RLIMIT_NOFILE, Rlim: syscall.Rlimit{Cur: 100, Max: 10}}}
	case "execve(ENOENT)":
		ch.Args[0] = probe("no-such-program")
	case "dup3(closed fd)":
		ch.Files = []uintptr{devnull(), 777}
	}
	t := ptracer.Tracer{Handler: c07nullHandler{}, Runner: ch, Limit: bigLimit}
	ctx, cancel := context.WithTimeout(context.Background(), 30*time.Second)
	defer cancel()
	res := t.Trace(ctx)
	_, merr := os.Stat(marker)
	x.Note("result", fmt.Sprintf("%s %q marker=%v", statusName(res.Status), res.Error, merr == nil))
	x.Distinct(fmt.Sprint("t", f, res.Status, res.Error))
	x.Outcome("tracer:" + statusName(res.Status))
	if f == "none" {
		if res.Status != runner.StatusNormal || merr != nil {
			x.Failf("C07/tracer/unexpected-failure", "no failure injected: %v %q marker=%v", res.Status, res.Error, merr == nil)
		}
		return
	}
	if merr == nil {
		x.Failf("C07/tracer/target-ran-despite-failure/"+f, "fault %s: the marker was written", f)
	}
	if res.Status != runner.StatusRunnerError || res.Error == "" {
		x.Failf("C07/tracer/failure-not-reported/"+f, "fault %s: result %v %q", f, res.Status, res.Error)
	}
	if cbPid != 0 && pidExists(cbPid) {
		x.Failf("C07/tracer/child-not-reaped/"+f, "fault %s: pid %d still exists after Trace returned", f, cbPid)
	}
}

func c07container(x *mc.X) {
	faults := []string{"none", "rlimit(soft>hard)", "callback(error)", "execve(ENOENT)", "execve(not found in PATH)", "dup3(closed fd in init)", "callback(error) once the target has descendants"}
	f := x.Pick("fault", faults...)
	syncAfter := x.Bool("syncafter")
	if x.Dry() {
		return
	}
	if f == "callback(error) once the target has descendants" {
		if !syncAfter {
			x.Outcome("n/a:target-not-started-before-callback")
			return
		}
		c07containerTree(x)
		return
	}
	c, err := c09pool.get()
	if err != nil {
		x.Failf("C07/harness", "%v", err)
		return
	}
	c.Delete("/w/marker")
	self := exeOf(os.Getpid())
	p := execveParam([]string{"/probe/report", "--marker=/w/marker", "--nofds"})
	p.SyncAfterExec = syncAfter
	cbPid := 0
	p.SyncFunc = func(pid int) error {
		cbPid = pid
		e := exeOf(pid)
		if e != self {
			x.Failf("C07/container/callback-pid-wrong", "syncafter=%v: /proc/%d/exe is %q; expected a process of the caller's pid namespace running the launcher image", syncAfter, pid, e)
		}
		b, _ := os.ReadFile(fmt.Sprintf("/proc/%d/cmdline", pid))
		isInit := strings.Contains(string(b), "container_init") && nspidDepth(pid) == 2 && strings.HasSuffix(nspidLine(pid), "\t1")
		if syncAfter && !isInit {
			x.Failf("C07/container/callback-pid-not-init", "sync after exec: pid %d is not the container init (NSpid %q)", pid, nspidLine(pid))
		}
		if !syncAfter {
			if isInit {
				x.Failf("C07/container/callback-pid-is-init", "sync before exec: pid %d is the container init, not the program's process", pid)
			}
		}
		if f == "callback(error)" {
			return errCallback
		}
		return nil
	}
	switch f {
	case "rlimit(soft>hard)":
		p.RLimits = []rlimit.RLimit{{Res: unix.RLIMIT_NOFILE, Rlim: syscall.Rlimit{Cur: 100, Max: 10}}}
	case "execve(ENOENT)":
		p.Args[0] = "/probe/no-such-program"
	case "execve(not found in PATH)":
		p.Args[0] = "no-such-program"
	case "dup3(closed fd in init)":
		// a CTTY request on a non-tty stdin fails in the child before the sync point
		p.CTTY = true
	}
	ctx, cancel := context.WithTimeout(context.Background(), 30*time.Second)
	res := c.Execve(ctx, p)
	cancel()
	// the marker is checked from the host through the program's own mount: open inside the container
	ran := false
	if fr, err := c.Open([]container.OpenCmd{{Path: "/w/marker", Flag: os.O_RDONLY}}); err == nil && len(fr) == 1 && fr[0].Err == nil {
		ran = true
		fr[0].File.Close()
	} else if err != nil {
		c09pool.drop()
	}
	x.Note("result", fmt.Sprintf("%s %q ran=%v", statusName(res.Status), res.Error, ran))
	x.Distinct(fmt.Sprint("c", f, syncAfter, res.Status, res.Error, ran))
	x.Outcome("container:" + statusName(res.Status))
	if f == "none" {
		if res.Status != runner.StatusNormal || !ran {
			x.Failf("C07/container/unexpected-failure", "no failure injected (syncafter=%v): %v %q ran=%v", syncAfter, res.Status, res.Error, ran)
		}
		return
	}
	if res.Status != runner.StatusRunnerError || res.Error == "" {
		x.Failf("C07/container/failure-not-reported/"+f, "fault %s syncafter=%v: result %v %q", f, syncAfter, res.Status, res.Error)
	}
	if ran && !(syncAfter && f == "callback(error)") {
		// with sync after exec the program is already running when the callback is asked: only then may the marker exist
		x.Failf("C07/container/target-ran-despite-failure/"+f, "fault %s syncafter=%v: the marker was written", f, syncAfter)
	}
	want := map[string]string{"rlimit(soft>hard)": "setrlimt", "execve(ENOENT)": "execve", "execve(not found in PATH)": "not found", "dup3(closed fd in init)": "ioctl", "callback(error)": errCallback.Error()}
	if !strings.Contains(res.Error, want[f]) {
		x.Failf("C07/container/failure-not-named/"+f, "fault %s syncafter=%v: error %q does not name %q", f, syncAfter, res.Error, want[f])
	}
	if cbPid != 0 && !syncAfter && pidExists(cbPid) {
		x.Failf("C07/container/child-not-reaped/"+f, "fault %s: host pid %d still exists after Execve returned", f, cbPid)
	}
	if res.Status == runner.StatusRunnerError && strings.Contains(res.Error, "closed") {
		c09pool.drop()
	}
}

func nspidLine(pid int) string {
	b, _ := os.ReadFile(fmt.Sprintf("/proc/%d/status", pid))
	for _, l := range strings.Split(string(b), "\n") {
		if strings.HasPrefix(l, "NSpid:") {
			return strings.TrimSpace(l)
		}
	}
	return ""
}

func nspidDepth(pid int) int { return len(strings.Fields(nspidLine(pid))) - 1 }

// c07containerTree: sync after exec, and the callback refuses the launch only once the target has built a process tree
// (plain, signal-ignoring, own-session children, a grandchild). When Execve returns the refusal, nothing of the target
// may be left running: every process carrying the nonce must be gone (bounded wait: a SIGKILLed process needs a moment
// to disappear; one that was never killed pauses forever).
func c07containerTree(x *mc.X) {
	shape := x.Pick("shape", "p", "i,p+", "s+,i2", "d,o")
	c, err := c09pool.get()
	if err != nil {
		x.Failf("C07/harness", "%v", err)
		return
	}
	nonce := newNonce()
	pr, pw, _ := os.Pipe()
	defer pr.Close()
	p := execveParam([]string{"/probe/tree", nonce, shape, "pause", "1"})
	p.Files = []uintptr{devnull(), pw.Fd(), devnull()}
	p.SyncAfterExec = true
	ready := ""
	p.SyncFunc = func(pid int) error {
		pr.SetReadDeadline(time.Now().Add(10 * time.Second))
		buf := make([]byte, 64)
		n, _ := pr.Read(buf)
		ready = strings.TrimSpace(string(buf[:n]))
		return errCallback
	}
	ctx, cancel := context.WithTimeout(context.Background(), 30*time.Second)
	res := c.Execve(ctx, p)
	cancel()
	pw.Close()
	x.Note("tree", shape+" → "+ready)
	x.Note("result", fmt.Sprintf("%s %q", statusName(res.Status), res.Error))
	if !strings.HasPrefix(ready, "READY") {
		c09pool.drop()
		killNonce(nonce)
		x.Failf("C07/harness", "the target tree %s never reported READY (%q)", shape, ready)
		return
	}
	if res.Status != runner.StatusRunnerError || !strings.Contains(res.Error, errCallback.Error()) {
		x.Failf("C07/container/failure-not-reported/callback(error)", "sync after exec, tree %s: result %v %q", shape, res.Status, res.Error)
	}
	gone := waitUntil(5*time.Second, func() bool { return len(scanNonce(nonce)) == 0 })
	if !gone {
		left := scanNonce(nonce)
		killNonce(nonce)
		c09pool.drop()
		x.Failf("C07/container/target-survives-refused-launch", "sync after exec, tree %s (%s): %d processes of the refused target are still running 5 s after Execve returned the refusal: %v", shape, ready, len(left), left)
	}
	// the environment must still serve the next call
	if err := envUsable(c); err != nil {
		c09pool.drop()
		if gone {
			x.Failf("C07/container/unusable-after-refused-launch", "tree %s: the next request after the refused launch: %v", shape, err)
		}
	}
	x.Distinct(fmt.Sprint("ct", shape, res.Status, gone))
	x.Outcome(fmt.Sprintf("container-tree:%s:gone=%v", statusName(res.Status), gone))
}
