package main

import (
	"bufio"
	"context"
	"encoding/json"
	"fmt"
	"io"
	"os"
	"os/exec"
	"path/filepath"
	"runtime"
	"sort"
	"strings"
	"syscall"
	"time"

	"github.com/criyle/go-sandbox/container"
	"github.com/criyle/go-sandbox/pkg/forkexec"
	"github.com/criyle/go-sandbox/pkg/memfd"
	"github.com/criyle/go-sandbox/pkg/pipe"
	"github.com/criyle/go-sandbox/pkg/unixsocket"
	"github.com/criyle/go-sandbox/runner/unshare"
	"golang.org/x/sys/unix"
	"verif/mc"
)

// C06, family "concurrent launch": two operations of one process, explored at system-call granularity.
//
// A helper process runs operation A (a launch, a container build, a file operation that receives descriptors …) on a
// pinned thread. The check traces that one thread with ptrace and stops it at EVERY system-call boundary (entry and
// exit) of A. At each boundary a second goroutine of the helper performs a complete launch B of the reporting probe,
// whose program lists its descriptor table. B must see exactly its own three descriptors at every boundary: whatever
// descriptor A holds at that instant (synchronisation socket, pipe ends, map files, received descriptors, memfd) must
// be close-on-exec already or be covered by the fork lock (then B simply waits: recorded as "blocked", not judged).
// This is every interleaving of A with one atomic B — one preemption of A at each of its system calls.

type c06xOp struct {
	name string
	run  func() string // performed by the helper on the pinned thread, every system call of it is a boundary
	prep func()        // optional: performed by the helper before the thread is traced
	// the operation lowers the descriptor limit of the whole process: a launch beside it would fail for want of numbers,
	// so it is explored by the descriptor-holder family (C17) only
	shortage bool
}

var c06xEnv container.Environment // built by prep for the container operations

func c06xOps() []c06xOp {
	rep := func() []string { return []string{probe("burn"), "exit", "0"} }
	return []c06xOp{
		{"forkexec-start(vfork)", func() string {
			r := &forkexec.Runner{Args: rep(), Env: []string{}, Files: stdioNull()}
			return c06xWait(r.Start())
		}, nil, false},
		{"forkexec-start(sync-callback)", func() string {
			r := &forkexec.Runner{Args: rep(), Env: []string{}, Files: stdioNull(), SyncFunc: func(int) error { return nil }}
			return c06xWait(r.Start())
		}, nil, false},
		{"forkexec-start(user-namespace,sync-callback)", func() string {
			r := &forkexec.Runner{Args: rep(), Env: []string{}, Files: stdioNull(), SyncFunc: func(int) error { return nil },
				CloneFlags:  unix.CLONE_NEWUSER | unix.CLONE_NEWNS | unix.CLONE_NEWPID,
				UIDMappings: []syscall.SysProcIDMap{{ContainerID: 0, HostID: 0, Size: 1}}, GIDMappings: []syscall.SysProcIDMap{{ContainerID: 0, HostID: 0, Size: 1}}}
			return c06xWait(r.Start())
		}, nil, false},
		{"forkexec-start(callback-refuses)", func() string {
			r := &forkexec.Runner{Args: rep(), Env: []string{}, Files: stdioNull(), SyncFunc: func(int) error { return fmt.Errorf("no") }}
			return c06xWait(r.Start())
		}, nil, false},
		{"forkexec-start(exec-fails)", func() string {
			r := &forkexec.Runner{Args: []string{probe("no-such-program")}, Env: []string{}, Files: stdioNull()}
			return c06xWait(r.Start())
		}, nil, false},
		{"namespace-runner-run", func() string {
			res := runUnshare(context.Background(), []string{"/probe/burn", "exit", "0"}, func(r *unshare.Runner) {})
			return statusName(res.Status)
		}, nil, false},
		{"container-build+destroy", func() string {
			c, err := newContainer(nil)
			if err != nil {
				return "build: " + err.Error()
			}
			return fmt.Sprint(c.Destroy())
		}, nil, false},
		{"container-execve(host side)", func() string {
			res := c06xEnv.Execve(context.Background(), execveParam([]string{"/probe/burn", "exit", "0"}))
			return statusName(res.Status)
		}, func() { c06xEnv, _ = newContainer(nil) }, false},
		{"container-open(two files received)", func() string {
			fr, err := c06xEnv.Open([]container.OpenCmd{{Path: "/w/a", Flag: os.O_CREATE | os.O_WRONLY, Perm: 0644}, {Path: "/w/b", Flag: os.O_CREATE | os.O_RDWR, Perm: 0644}})
			// the received files stay open until the operation is over: they are what a concurrent launch could inherit
			defer func() {
				for _, f := range fr {
					if f.File != nil {
						f.File.Close()
					}
				}
			}()
			c06xEnv.Ping()
			return fmt.Sprint("open:", err)
		}, func() { c06xEnv, _ = newContainer(nil) }, false},
		{"socket-pair(2 free descriptor numbers)", func() string {
			// the pair is created, the duplicate inside NewSocket is refused: the error path must close each number once
			restore := fdShortage(2)
			a, b, err := unixsocket.NewSocketPair()
			restore()
			if err == nil {
				a.Close()
				b.Close()
			}
			return fmt.Sprint(err)
		}, nil, true},
		{"memfd-copy+pipe-collector", func() string {
			f, err := memfd.DupToMemfd("x", strings.NewReader("payload"))
			if err == nil {
				f.Close()
			}
			b, err2 := pipe.NewBuffer(16)
			if err2 == nil {
				b.W.Close()
				<-b.Done
			}
			return fmt.Sprint(err, err2)
		}, nil, false},
	}
}

type c06xHolder struct {
	fd       int
	dev, ino uint64
	path     string
}

func c06xWait(pid int, err error) string {
	if err != nil {
		return "start: " + err.Error()
	}
	var ws syscall.WaitStatus
	syscall.Wait4(pid, &ws, 0, nil)
	return fmt.Sprintf("wait %#x", uint32(ws))
}

// helper role: vcheck c06x <op-index> <scratch-dir>
// protocol (stdin → stdout, one line each): "B" → "B extras=[..]" | "B blocked" | "B error ..."; the helper announces
// "TID n" when the pinned thread is ready, starts A on "GO", and prints "A-DONE <result>" when A has returned.
func c06xHelper(args []string) int {
	if len(args) < 2 {
		return 3
	}
	var idx int
	fmt.Sscan(args[0], &idx)
	dir := args[1]
	devnull()
	ents, _ := os.ReadDir("/proc/self/fd")
	for _, e := range ents {
		var n int
		fmt.Sscan(e.Name(), &n)
		if n > 2 {
			unix.CloseOnExec(n)
		}
	}
	op := c06xOps()[idx]
	if op.prep != nil {
		op.prep()
		if c06xEnv == nil {
			fmt.Println("PREP-FAILED")
			return 3
		}
		defer c06xEnv.Destroy()
	}
	out := bufio.NewWriter(os.Stdout)
	say := func(s string) { out.WriteString(s + "\n"); out.Flush() }
	in := bufio.NewReader(os.Stdin)
	goCh := make(chan struct{})
	aDone := make(chan string, 1)
	tidCh := make(chan int, 1)
	go func() {
		runtime.LockOSThread()
		tidCh <- unix.Gettid()
		<-goCh
		aDone <- op.run()
	}()
	say(fmt.Sprintf("TID %d", <-tidCh))
	type bres struct{ s string }
	var holders []c06xHolder
	var pending chan bres
	nB := 0
	launchB := func() chan bres {
		ch := make(chan bres, 1)
		nB++
		of := filepath.Join(dir, fmt.Sprintf("b%d.json", nB))
		go func() {
			r := &forkexec.Runner{Args: []string{probe("report"), "--outfile=" + of}, Env: []string{}, Files: stdioNull()}
			pid, err := r.Start()
			if err != nil {
				ch <- bres{"error start: " + err.Error()}
				return
			}
			var ws syscall.WaitStatus
			syscall.Wait4(pid, &ws, 0, nil)
			rp, err := readReport(of)
			os.Remove(of)
			if err != nil {
				ch <- bres{"error report: " + err.Error()}
				return
			}
			var extra []string
			for _, f := range rp.Fds {
				if f.Fd > 2 {
					extra = append(extra, fmt.Sprintf("%d(type %#o, dev %d ino %d)", f.Fd, f.Type, f.Dev, f.Ino))
				}
			}
			sort.Strings(extra)
			ch <- bres{"extras=" + strings.Join(extra, ",")}
		}()
		return ch
	}
	for {
		line, err := in.ReadString('\n')
		if err != nil {
			return 0
		}
		switch strings.TrimSpace(line) {
		case "GO":
			close(goCh)
		case "B":
			if pending == nil {
				pending = launchB()
			}
			select {
			case r := <-pending:
				pending = nil
				say("B " + r.s)
			case <-time.After(150 * time.Millisecond):
				say("B blocked")
			}
		case "H":
			// family "descriptor held by another run" (C17): a descriptor that belongs to somebody else is opened at this
			// boundary (it gets the lowest free number) and kept until A is over
			hp := filepath.Join(dir, fmt.Sprintf("h%d", len(holders)))
			fd, err := unix.Open(hp, unix.O_RDONLY|unix.O_CREAT|unix.O_CLOEXEC, 0600)
			if err != nil {
				say("H none " + err.Error())
				break
			}
			var st unix.Stat_t
			unix.Fstat(fd, &st)
			holders = append(holders, c06xHolder{fd, st.Dev, st.Ino, hp})
			say(fmt.Sprintf("H ok %d", fd))
		case "CHECK-H":
			var bad []string
			for _, h := range holders {
				var st unix.Stat_t
				if err := unix.Fstat(h.fd, &st); err != nil {
					bad = append(bad, fmt.Sprintf("%d:%v", h.fd, err))
				} else if st.Dev != h.dev || st.Ino != h.ino {
					bad = append(bad, fmt.Sprintf("%d:now-another-file(type %#o)", h.fd, st.Mode&unix.S_IFMT))
				} else {
					unix.Close(h.fd)
				}
				os.Remove(h.path)
			}
			n := len(holders)
			holders = nil
			say(fmt.Sprintf("H-RESULT held=%d bad=%s", n, strings.Join(bad, ",")))
		case "DONE?":
			select {
			case r := <-aDone:
				say("A-DONE " + r)
			default:
				say("A-RUNNING")
			}
		case "WAIT-A":
			say("A-DONE " + <-aDone)
		}
	}
}

func init() { aux["c06x"] = c06xHelper }

var c06xSyscallNames = map[uint64]string{0: "read", 1: "write", 2: "open", 3: "close", 9: "mmap", 13: "rt_sigaction", 14: "rt_sigprocmask", 16: "ioctl", 20: "writev", 22: "pipe", 32: "dup", 33: "dup2", 35: "nanosleep",
	39: "getpid", 41: "socket", 44: "sendto", 45: "recvfrom", 46: "sendmsg", 47: "recvmsg", 53: "socketpair", 56: "clone", 57: "fork", 58: "vfork", 59: "execve", 61: "wait4", 62: "kill", 72: "fcntl", 186: "gettid", 202: "futex",
	232: "epoll_wait", 233: "epoll_ctl", 234: "tgkill", 257: "openat", 262: "newfstatat", 281: "epoll_pwait", 290: "eventfd2", 291: "epoll_create1", 292: "dup3", 293: "pipe2", 302: "prlimit64", 319: "memfd_create", 435: "clone3", 437: "openat2"}

type c06xResult struct {
	stops, judged, blocked int
	leaks                  map[string]string // syscall boundary → extras
	aResult                string
	err                    string
	// holder mode
	held       int
	lost       string   // holders that were closed or replaced under their owner
	strayClose []string // close() of A's thread that the kernel answered with EBADF: a number A did not own
}

func c06xConcurrent(x *mc.X) {
	ops := c06xOps()
	var idx []int
	for i, o := range ops {
		if !o.shortage {
			idx = append(idx, i)
		}
	}
	oi := idx[x.Choose(len(idx), "operation-A")]
	x.Note("family", "concurrent-launch")
	x.Note("operation-A", ops[oi].name)
	if x.Dry() {
		return
	}
	x.NeedsTime(200 * time.Second)
	x.OnHang("C06/harness", "concurrent-launch exploration of "+ops[oi].name+" did not finish")
	r, ok := c06xDrive(x, "C06", oi, "B")
	if !ok {
		return
	}
	x.Note("boundaries", fmt.Sprintf("%d system-call boundaries of A, %d judged, %d blocked (covered by the fork lock or by a stopped runtime); A: %s", r.stops, r.judged, r.blocked, r.aResult))
	x.Add("syscall_boundaries", int64(r.stops))
	x.Add("interleavings_judged", int64(r.judged))
	x.Count(int64(r.stops))
	if r.judged < 10 {
		x.Failf("C06/harness", "concurrent-launch exploration of %s judged only %d of %d boundaries", ops[oi].name, r.judged, r.stops)
	}
	if len(r.leaks) > 0 {
		var ks []string
		for k := range r.leaks {
			ks = append(ks, k)
		}
		sort.Strings(ks)
		b, _ := json.Marshal(r.leaks)
		x.Failf("C06/concurrent-launch/foreign-descriptor/"+ops[oi].name, "while %s was stopped at a system-call boundary (%s …), a complete launch from another goroutine produced a program with descriptors beyond its list: %s", ops[oi].name, ks[0], string(b))
	}
	x.Distinct(fmt.Sprint("x", ops[oi].name, len(r.leaks) > 0))
	x.Outcome(fmt.Sprintf("concurrent-launch:%s:leaks=%v", ops[oi].name, len(r.leaks) > 0))
}

// c06xDrive runs operation A of the helper with its thread stopped at every system-call boundary. mode "B": one complete
// launch at each boundary; mode "H": a descriptor of "another run" is opened at each boundary and held to the end; mode
// "N": nothing is done at the boundaries (only A's own close calls are watched).
func c06xDrive(x *mc.X, id string, oi int, mode string) (c06xResult, bool) {
	ops := c06xOps()
	dir := tmpDir("c06x")
	defer os.RemoveAll(dir)
	self, _ := os.Executable()
	resCh := make(chan c06xResult, 1)
	go func() {
		// all ptrace requests must come from one thread
		runtime.LockOSThread()
		var r c06xResult
		r.leaks = map[string]string{}
		defer func() { resCh <- r }()
		cmd := exec.Command(self, "c06x", fmt.Sprint(oi), dir)
		cmd.Stderr = os.Stderr
		// a thread that is stopped at every system call looks like a goroutine that never yields: without this the runtime
		// keeps interrupting it with its preemption signal and A makes no progress
		cmd.Env = append(os.Environ(), "GODEBUG=asyncpreemptoff=1")
		cmd.SysProcAttr = &syscall.SysProcAttr{Setpgid: true, Pdeathsig: syscall.SIGKILL}
		hin, _ := cmd.StdinPipe()
		hout, _ := cmd.StdoutPipe()
		if err := cmd.Start(); err != nil {
			r.err = err.Error()
			return
		}
		defer func() { syscall.Kill(-cmd.Process.Pid, syscall.SIGKILL); cmd.Wait() }()
		rd := bufio.NewReader(hout)
		lines := make(chan string, 16)
		go func() {
			for {
				l, err := rd.ReadString('\n')
				if err != nil {
					close(lines)
					return
				}
				lines <- strings.TrimSpace(l)
			}
		}()
		ask := func(q string, d time.Duration) string {
			if q != "" {
				io.WriteString(hin, q+"\n")
			}
			select {
			case l, ok := <-lines:
				if !ok {
					return "EOF"
				}
				return l
			case <-time.After(d):
				return "TIMEOUT"
			}
		}
		checkHolders := func() {
			if mode != "H" {
				return
			}
			a := ask("CHECK-H", 20*time.Second)
			var held int
			if _, err := fmt.Sscanf(a, "H-RESULT held=%d", &held); err != nil {
				r.err = "helper said " + a + " when asked about the held descriptors"
				return
			}
			if i := strings.Index(a, "bad="); i >= 0 {
				r.lost = a[i+4:]
			}
		}
		first := ask("", horizon)
		var tid int
		if _, err := fmt.Sscanf(first, "TID %d", &tid); err != nil {
			r.err = "helper said " + first
			return
		}
		if err := unix.PtraceSeize(tid); err != nil {
			r.err = "seize: " + err.Error()
			return
		}
		if err := unix.PtraceInterrupt(tid); err != nil {
			r.err = "interrupt: " + err.Error()
			return
		}
		var ws unix.WaitStatus
		if _, err := unix.Wait4(tid, &ws, unix.WALL, nil); err != nil {
			r.err = "wait after interrupt: " + err.Error()
			return
		}
		unix.PtraceSetOptions(tid, unix.PTRACE_O_TRACESYSGOOD)
		io.WriteString(hin, "GO\n")
		sig := 0
		outstanding := false
		deadline := time.Now().Add(100 * time.Second)
		for time.Now().Before(deadline) {
			if err := unix.PtraceSyscall(tid, sig); err != nil {
				break // the thread is gone
			}
			sig = 0
			if _, err := unix.Wait4(tid, &ws, unix.WALL, nil); err != nil {
				break
			}
			if ws.Exited() || ws.Signaled() {
				break
			}
			if !ws.Stopped() {
				continue
			}
			switch {
			case ws.StopSignal() == syscall.SIGTRAP|0x80:
				// a system-call boundary of A: run one complete launch B now
				r.stops++
				var regs unix.PtraceRegs
				name := "?"
				if unix.PtraceGetRegs(tid, &regs) == nil {
					name = c06xSyscallNames[regs.Orig_rax]
					if name == "" {
						name = fmt.Sprintf("syscall#%d", regs.Orig_rax)
					}
					if int64(regs.Rax) == -int64(syscall.ENOSYS) {
						name += "@entry"
					} else {
						name += "@exit"
					}
				}
				if os.Getenv("C06X_DEBUG") != "" {
					fmt.Fprintf(os.Stderr, "stop %d %s\n", r.stops, name)
				}
				if outstanding {
					// the helper could not even answer at the previous boundary (A was stopped inside the runtime, holding one
					// of its locks): its answer arrives now that A has moved on
					if late := ask("", 10*time.Second); late == "TIMEOUT" || late == "EOF" {
						r.err = "helper never answered after " + name
						return
					}
					outstanding = false
				}
				if mode != "B" && strings.HasPrefix(name, "close@exit") && int64(regs.Rax) == -int64(syscall.EBADF) {
					r.strayClose = append(r.strayClose, fmt.Sprintf("close(%d) at boundary %d", int32(regs.Rdi), r.stops))
				}
				ans := "N"
				if mode != "N" {
					ans = ask(mode, 2*time.Second)
				}
				if os.Getenv("C06X_DEBUG") != "" {
					fmt.Fprintf(os.Stderr, "  -> %s\n", ans)
				}
				switch {
				case strings.HasPrefix(ans, "B extras="):
					r.judged++
					if e := strings.TrimPrefix(ans, "B extras="); e != "" {
						if _, ok := r.leaks[name]; !ok {
							r.leaks[name] = e
						}
					}
				case ans == "N":
					r.judged++
				case strings.HasPrefix(ans, "H ok"):
					r.judged++
					r.held++
				case strings.HasPrefix(ans, "H none"):
					r.blocked++
				case ans == "B blocked":
					r.blocked++
				case ans == "TIMEOUT":
					r.blocked++
					outstanding = true
				default:
					r.err = "helper said " + ans + " at " + name
					return
				}
			case ws.StopSignal() == syscall.SIGTRAP && ws.TrapCause() > 0:
				// ptrace event stop: nothing to deliver
			case uint32(ws)>>16 == unix.PTRACE_EVENT_STOP:
				// group-stop / interrupt stop
			default:
				if os.Getenv("C06X_DEBUG") != "" {
					fmt.Fprintf(os.Stderr, "signal stop %v (status %#x)\n", ws.StopSignal(), uint32(ws))
				}
				sig = int(ws.StopSignal()) // a real signal (the runtime's preemption signal among them): deliver it
			}
			// has A finished? (the pinned thread then idles in the scheduler)
			if r.stops%8 == 0 && !outstanding {
				if a := ask("DONE?", 2*time.Second); strings.HasPrefix(a, "A-DONE") {
					r.aResult = strings.TrimPrefix(a, "A-DONE ")
					unix.PtraceDetach(tid)
					checkHolders()
					return
				}
			}
		}
		unix.PtraceDetach(tid)
		if outstanding {
			ask("", 10*time.Second)
		}
		a := ask("WAIT-A", 20*time.Second)
		r.aResult = strings.TrimPrefix(a, "A-DONE ")
		checkHolders()
	}()
	var r c06xResult
	select {
	case r = <-resCh:
	case <-time.After(150 * time.Second):
		x.Failf(id+"/harness", "boundary exploration of %s did not finish", ops[oi].name)
		return r, false
	}
	if r.err != "" {
		x.Failf(id+"/harness", "boundary exploration of %s: %s", ops[oi].name, r.err)
		return r, false
	}
	return r, true
}
