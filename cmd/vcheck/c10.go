package main

import (
	"context"
	"fmt"
	"os"
	"path/filepath"
	"strings"
	"syscall"
	"time"

	"github.com/criyle/go-sandbox/container"
	"github.com/criyle/go-sandbox/pkg/mount"
	"github.com/criyle/go-sandbox/pkg/rlimit"
	"github.com/criyle/go-sandbox/pkg/seccomp"
	"github.com/criyle/go-sandbox/runner"
	"golang.org/x/sys/unix"
	"verif/gate"
	"verif/mc"
	"verif/rpcmodel"
)

// C10 — the container RPC never desynchronises; program-caused failures keep it usable.
// Model (rpcmodel) + conformance: every script is explored exhaustively in the model (all interleavings of caller,
// pumps, server, wait goroutine, child and context), then replayed on a real container for every controllable
// schedule, and the implementation's event log must be accepted by the model.

var vpNames = map[int]string{
	container.VPHostSendPre: "H_SEND_PRE", container.VPHostSendPost: "H_SEND_POST", container.VPHostRecv: "H_RECV", container.VPHostSelect: "H_SELECT",
	container.VPHostBrDone: "H_BR_DONE", container.VPHostBrCtx: "H_BR_CTX", container.VPHostBrResult: "H_BR_RESULT",
	container.VPContSendPre: "C_SEND_PRE", container.VPContSendPost: "C_SEND_POST", container.VPContRecv: "C_RECV", container.VPContWaited: "C_WAITED",
	container.VPContDispatch: "C_DISPATCH", container.VPContStarted: "C_STARTED", container.VPContSelect: "C_SELECT", container.VPContBrDone: "C_BR_DONE",
	container.VPContBrKill: "C_BR_KILL", container.VPContBrExit: "C_BR_EXIT",
}

func eventLabel(e gate.Event) string {
	if e.Side == "X" {
		return e.Name
	}
	arg := e.Arg
	switch e.ID {
	case container.VPContWaited, container.VPContSelect:
		arg = 0 // the pid is not part of the protocol
	case container.VPHostRecv:
		arg &= 15 // SO_PASSCRED on the host socket attaches credentials to every message
	}
	return fmt.Sprintf("%s(%d)", vpNames[e.ID], arg)
}

// one scripted operation: its model counterpart and how to perform / judge it on the implementation
type c10op struct {
	name  string
	model rpcmodel.Op
	sched []string // controllable schedules ("" = none)
}

var c10alphabet = []c10op{
	{"ping", rpcmodel.Op{Kind: rpcmodel.CPing}, nil},
	{"open-ok", rpcmodel.Op{Kind: rpcmodel.COpen, Batch: true}, nil},
	{"open-item-error", rpcmodel.Op{Kind: rpcmodel.COpen, Batch: true}, nil},
	{"open-empty", rpcmodel.Op{Kind: rpcmodel.COpen, ReplyErr: true}, nil},
	{"delete-error", rpcmodel.Op{Kind: rpcmodel.CDelete, ReplyErr: true}, nil},
	{"symlink-ok", rpcmodel.Op{Kind: rpcmodel.CSymlink, Batch: true}, nil},
	{"symlink-error", rpcmodel.Op{Kind: rpcmodel.CSymlink, Batch: true}, nil},
	{"reset", rpcmodel.Op{Kind: rpcmodel.CReset}, nil},
	{"reset-error", rpcmodel.Op{Kind: rpcmodel.CReset, ReplyErr: true}, nil},
	{"execve-not-found", rpcmodel.Op{Kind: rpcmodel.CExecve, LookFail: true}, nil},
	{"execve-empty-args", rpcmodel.Op{Kind: rpcmodel.CExecve, LookFail: true}, nil},
	{"execve-fails-before-sync", rpcmodel.Op{Kind: rpcmodel.CExecve, StartFail: true}, nil},
	// the clone itself is refused (a descriptor that is no cgroup directory given as the cgroup to be born in): for the
	// protocol the same as any other failure before the sync, for the init a different path through the launcher
	{"execve-clone-fails", rpcmodel.Op{Kind: rpcmodel.CExecve, StartFail: true}, nil},
	{"execve-callback-fails", rpcmodel.Op{Kind: rpcmodel.CExecve, SyncFail: true}, nil},
	{"execve-exec-fails-after-sync", rpcmodel.Op{Kind: rpcmodel.CExecve, ExecFail: true}, nil},
	// another step the launcher performs after the sync: loading a filter (late, because of the environment's cgroup
	// option) that the kernel rejects
	{"execve-filter-rejected-after-sync", rpcmodel.Op{Kind: rpcmodel.CExecve, ExecFail: true}, nil},
	{"execve-runs", rpcmodel.Op{Kind: rpcmodel.CExecve, SelfExit: true, Cancel: true}, []string{"exit-then-result", "cancel-then-kill", "exit-held-cancel-first", "exited-unreported-kill-first"}},
	{"execve[sync-after]-start-fails", rpcmodel.Op{Kind: rpcmodel.CExecve, SyncAfter: true, StartFail: true}, nil},
	{"execve[sync-after]-callback-fails", rpcmodel.Op{Kind: rpcmodel.CExecve, SyncAfter: true, SyncFail: true}, nil},
	// the same refusal while the program (already running: the callback comes after exec) would never end by itself
	{"execve[sync-after]-callback-fails(program never ends)", rpcmodel.Op{Kind: rpcmodel.CExecve, SyncAfter: true, SyncFail: true}, nil},
	{"execve[sync-after]-runs", rpcmodel.Op{Kind: rpcmodel.CExecve, SyncAfter: true, SelfExit: true, Cancel: true}, []string{"exit-then-result", "cancel-then-kill", "exit-held-cancel-first"}},
}

type c10env struct {
	c   container.Environment
	ctl *gate.Ctl
	// host directory bound read-only at /w/keep, inside the writable tmpfs: while it holds a file, Reset cannot clean /w
	// (EROFS) and must answer with an error — a failure caused by the request's environment, not by the transport
	keep string
}

// c10lateFilter: the environment is built with UnshareCgroupBeforeExec, so that the launcher loads the filter AFTER the
// synchronisation (a filter the kernel rejects then fails the start after the host was told to go on)
var c10lateFilter bool

func c10build() (*c10env, error) {
	ctl, err := gate.New()
	if err != nil {
		return nil, err
	}
	container.VerifHook = ctl.HostHook
	keep := tmpDir("c10keep")
	os.Chmod(keep, 0755)
	c, err := newContainer(func(b *container.Builder) {
		b.Stderr = ctl.Peer
		b.Mounts = append(b.Mounts, mount.Mount{Source: keep, Target: "w/keep", Flags: syscall.MS_BIND | syscall.MS_RDONLY | syscall.MS_NOSUID})
		b.UnshareCgroupBeforeExec = c10lateFilter
	})
	if err != nil {
		container.VerifHook = nil
		ctl.Close()
		return nil, err
	}
	// Build's own ping/conf exchange must have drained completely before observations start
	waitUntil(horizon, func() bool {
		pre, post := 0, 0
		for _, e := range ctl.Log(0) {
			if e.Side == "C" && e.ID == container.VPContSendPre {
				pre++
			}
			if e.Side == "C" && e.ID == container.VPContSendPost {
				post++
			}
		}
		return pre == post && pre >= 2
	})
	return &c10env{c: c, ctl: ctl, keep: keep}, nil
}

func (e *c10env) close() {
	done := make(chan struct{})
	go func() { e.c.Destroy(); close(done) }()
	select {
	case <-done:
	case <-time.After(horizon):
	}
	container.VerifHook = nil
	e.ctl.Close()
	os.RemoveAll(e.keep)
}

// perform runs one operation on the implementation; returns the model's RETURN class and a description of what the API said,
// plus "" or a complaint if the API answer is not the one this operation must get.
func (e *c10env) perform(k int, op c10op, sched string) (class int, said string, complaint string, returned bool) {
	c, ctl := e.c, e.ctl
	uniq := fmt.Sprintf("k%d", k)
	call := func(f func()) bool { return withTimeout(horizon, f) }
	switch op.name {
	case "ping":
		var err error
		returned = call(func() { err = c.Ping() })
		said = fmt.Sprint(err)
		if err != nil {
			complaint = "ping failed: " + said
			return 1, said, complaint, returned
		}
		return 0, said, "", returned
	case "open-ok", "open-item-error", "open-empty":
		var res []container.OpenCmdResult
		var err error
		cmds := []container.OpenCmd{{Path: "/w/" + uniq, Flag: os.O_CREATE | os.O_WRONLY, Perm: 0644}}
		if op.name == "open-item-error" {
			cmds = []container.OpenCmd{{Path: "/w/missing-" + uniq + "/f", Flag: os.O_CREATE | os.O_WRONLY, Perm: 0644}}
		}
		if op.name == "open-empty" {
			cmds = nil
		}
		returned = call(func() { res, err = c.Open(cmds) })
		said = fmt.Sprint(err, len(res))
		for _, r := range res {
			if r.File != nil {
				r.File.Close()
			}
		}
		switch op.name {
		case "open-ok":
			if err != nil || len(res) != 1 || res[0].Err != nil {
				complaint = "open of a new file: " + fmt.Sprint(err, res)
			}
			return 3, said, complaint, returned
		case "open-item-error":
			if err != nil || len(res) != 1 || res[0].Err == nil || !strings.Contains(res[0].Err.Error(), "missing-"+uniq) {
				complaint = "open in a missing directory must fail for that item with its own path: " + fmt.Sprint(err, res)
			}
			return 3, said, complaint, returned
		default:
			if err == nil {
				complaint = "an empty open batch must be answered with an error"
			}
			return 1, said, complaint, returned
		}
	case "delete-error":
		var err error
		returned = call(func() { err = c.Delete("/w/nonexistent-" + uniq) })
		said = fmt.Sprint(err)
		if err == nil || !strings.Contains(err.Error(), "nonexistent-"+uniq) {
			complaint = "delete of a missing path must fail naming that path: " + said
		}
		return 1, said, complaint, returned
	case "symlink-ok", "symlink-error":
		var errs []error
		var err error
		l := container.SymbolicLink{LinkPath: "/w/link-" + uniq, Target: "/w/target"}
		if op.name == "symlink-error" {
			l.LinkPath = "/w/missing-" + uniq + "/l"
		}
		returned = call(func() { errs, err = c.Symlink([]container.SymbolicLink{l}) })
		said = fmt.Sprint(err, errs)
		if err != nil || len(errs) != 1 || (errs[0] == nil) != (op.name == "symlink-ok") {
			complaint = "symlink result: " + said
		}
		return 3, said, complaint, returned
	case "reset":
		var err error
		returned = call(func() { err = c.Reset() })
		said = fmt.Sprint(err)
		if err != nil {
			complaint = "reset failed: " + said
		}
		return 0, said, complaint, returned
	case "reset-error":
		var err error
		blocker := filepath.Join(e.keep, "blocker-"+uniq)
		os.WriteFile(blocker, []byte("x"), 0644)
		returned = call(func() { err = c.Reset() })
		os.Remove(blocker)
		said = fmt.Sprint(err)
		if err == nil {
			complaint = "reset with an undeletable file below /w must fail: " + said
		}
		return 1, said, complaint, returned
	}
	// execve family
	code := 20 + k
	p := execveParam([]string{"/probe/burn", "exit", fmt.Sprint(code)})
	p.SyncAfterExec = op.model.SyncAfter
	p.SyncFunc = func(pid int) error {
		if op.model.SyncFail {
			ctl.Mark("SYNCFUNC(1)")
			return fmt.Errorf("callback refuses %s", uniq)
		}
		ctl.Mark("SYNCFUNC(0)")
		return nil
	}
	wantErr := ""
	switch {
	case op.name == "execve-not-found":
		p.Args = []string{"no-such-program-" + uniq}
		wantErr = "no-such-program-" + uniq
	case op.name == "execve-empty-args":
		p.Args = nil
		wantErr = " "
	case op.name == "execve-clone-fails":
		p.CgroupFD = devnull()
		wantErr = "clone"
	case op.model.StartFail && !op.model.SyncAfter:
		p.RLimits = []rlimit.RLimit{{Res: unix.RLIMIT_NOFILE, Rlim: syscall.Rlimit{Cur: 100, Max: 10}}}
		wantErr = "setrlimt"
	case op.model.StartFail && op.model.SyncAfter:
		p.Args = []string{"/probe/no-such-program-" + uniq}
		wantErr = "no-such-program-" + uniq
	case op.model.SyncFail:
		wantErr = "callback refuses " + uniq
		if strings.Contains(op.name, "never ends") {
			p.Args = []string{"/probe/burn", "pause", uniq}
		}
	case op.name == "execve-filter-rejected-after-sync":
		p.Seccomp = seccomp.Filter{{Code: 0xffff}}
		wantErr = "seccomp"
	case op.model.ExecFail:
		p.Args = []string{"/probe/no-such-program-" + uniq}
		wantErr = "no-such-program-" + uniq
	}
	ctx, cancel := context.WithCancel(context.Background())
	defer cancel()
	var res runner.Result
	wantStatus := runner.StatusRunnerError
	if wantErr == "" {
		wantStatus = runner.StatusNonzeroExitStatus
		base := ctl.Len()
		switch sched {
		case "exit-then-result":
		case "cancel-then-kill":
			p.Args = []string{"/probe/burn", "pause"}
			wantStatus = runner.StatusTimeLimitExceeded
			go func() {
				// cancel only when both sides are parked in their selects
				if _, ok := ctl.WaitEvent(base, "H", container.VPHostSelect, -1, horizon); !ok {
					return
				}
				if _, ok := ctl.WaitEvent(base, "C", container.VPContSelect, -1, horizon); !ok {
					return
				}
				ctl.Mark("CANCEL")
				cancel()
			}()
		case "exit-held-cancel-first":
			h := ctl.Hold("H", container.VPHostRecv, container.VKResult)
			go func() {
				if !h.WaitParked(horizon) {
					h.Release()
					return
				}
				if _, ok := ctl.WaitEvent(base, "H", container.VPHostSelect, -1, horizon); ok {
					ctl.Mark("CANCEL")
					cancel()
					ctl.WaitEvent(base, "H", container.VPHostBrCtx, -1, horizon)
				}
				h.Release()
			}()
		case "exited-unreported-kill-first":
			h := ctl.Hold("C", container.VPContWaited, -1)
			go func() {
				if !h.WaitParked(horizon) {
					h.Release()
					return
				}
				if _, ok := ctl.WaitEvent(base, "H", container.VPHostSelect, -1, horizon); ok {
					if _, ok := ctl.WaitEvent(base, "C", container.VPContSelect, -1, horizon); ok {
						ctl.Mark("CANCEL")
						cancel()
						ctl.WaitEvent(base, "C", container.VPContBrKill, -1, horizon)
					}
				}
				h.Release()
			}()
		}
	}
	returned = call(func() { res = c.Execve(ctx, p) })
	said = fmt.Sprintf("%s exit=%d %q", statusName(res.Status), res.ExitStatus, res.Error)
	class = 2
	if res.Status == runner.StatusRunnerError {
		class = 1
	}
	if !returned {
		return class, said, "", false
	}
	if res.Status != wantStatus {
		complaint = fmt.Sprintf("expected status %s, got %s", statusName(wantStatus), said)
	} else if wantErr != "" && !strings.Contains(res.Error, strings.TrimSpace(wantErr)) {
		complaint = fmt.Sprintf("the error %q does not belong to this call (expected to mention %q)", res.Error, wantErr)
	} else if wantStatus == runner.StatusNonzeroExitStatus && res.ExitStatus != code {
		complaint = fmt.Sprintf("exit value %d belongs to another call (this call's program exits with %d)", res.ExitStatus, code)
	}
	return class, said, complaint, returned
}

func init() {
	registry["C10"] = func(tier string) *mc.Spec {
		maxLen := 2
		if tier == "thorough" {
			maxLen = 3
		}
		spec := &mc.Spec{
			Level: "model_checking",
			Rule: "scripts of ≤ maxLen operations over the alphabet (ping, open ok/item error/empty, delete error, symlink ok/error, reset, execve rejected before fork / empty args / failing before sync / callback failing / exec failing after sync / running, each also with sync after exec) followed by a usability suffix (ping + a trivial execve); " +
				"for each script the model is searched exhaustively (every interleaving of caller, four pumps, server, wait goroutine, child exit, cancellation; invariants I1 reply-belongs-to-call, I2 no command in the wrong state, I3 no deadlock, I4 quiescent at the end); " +
				"then every controllable schedule of every running execve (exit→result, cancel→kill, result held + cancel first, child ended but unreported + kill first) is replayed on a real container through the gates, each call must return its own answer, and the merged event log of both endpoints must be accepted by the model (subset simulation). " +
				"non-trivial: the script contains a failing or running execve; distinct = (script, schedules, API answers)",
			Bound:       map[string]any{"max_script_len": maxLen, "alphabet": len(c10alphabet)},
			Assumptions: []string{"Go's random choice among ready select cases is never exercised: the gates make exactly one case ready; a branch taken with both ready is observationally the other event arriving later (the unconsumed event stays in its capacity-1 channel)", "gate granularity = protocol message / named point, not instruction"},
			SplitDepth:  3,
			Workers:     4,
			Horizon:     120 * time.Second,
		}
		spec.Init = func() error { devnull(); return nil }
		spec.Fini = cleanupTmp
		spec.Body = func(x *mc.X) {
			if x.Choose(2, "family") == 1 {
				c10oversize(x)
				return
			}
			n := 1 + x.Choose(maxLen, "len")
			var ops []c10op
			var scheds []string
			// positions before the last one: quick and the 3-op scripts use the execve family only (every other operation is a
			// single request/reply that provably returns both sides to the idle state, see the model's quiescence check);
			// last position: quick pairs and all triples use six representatives
			var execFamily, reps []int
			for i, o := range c10alphabet {
				if o.model.Kind == rpcmodel.CExecve {
					execFamily = append(execFamily, i)
				}
				switch o.name {
				case "open-ok", "reset", "reset-error", "execve-callback-fails", "execve-runs", "execve[sync-after]-runs", "execve[sync-after]-callback-fails(program never ends)":
					reps = append(reps, i)
				}
			}
			for i := 0; i < n; i++ {
				var alpha []int
				last := i == n-1
				switch {
				case n == 1:
				case !last && (tier == "quick" || n == 3):
					alpha = execFamily
				case last && ((tier == "quick" && n == 2) || n == 3):
					alpha = reps
				}
				var op c10op
				if alpha == nil {
					op = c10alphabet[x.Choose(len(c10alphabet), "op")]
				} else {
					op = c10alphabet[alpha[x.Choose(len(alpha), "op")]]
				}
				s := ""
				if len(op.sched) > 0 {
					if last && alpha != nil && n > 1 {
						s = op.sched[1] // cancel-then-kill as the representative running schedule in last position
					} else {
						s = op.sched[x.Choose(len(op.sched), "schedule")]
					}
				}
				ops = append(ops, op)
				scheds = append(scheds, s)
			}
			var names []string
			nontrivial := false
			for i, o := range ops {
				nm := o.name
				if scheds[i] != "" {
					nm += "{" + scheds[i] + "}"
				}
				names = append(names, nm)
				if o.model.Kind == rpcmodel.CExecve {
					nontrivial = true
				}
			}
			x.Note("script", names)
			if x.Dry() {
				return
			}
			// ---- model: exhaustive search of the script + usability suffix
			suffix := []c10op{c10alphabet[0], {"execve-runs", rpcmodel.Op{Kind: rpcmodel.CExecve, SelfExit: true}, nil}}
			m := &rpcmodel.Model{}
			for _, o := range append(append([]c10op{}, ops...), suffix...) {
				m.Script = append(m.Script, o.model)
			}
			st := m.Explore()
			x.Add("states", int64(st.States))
			x.Add("transitions", int64(st.Transitions))
			x.Count(int64(st.States))
			if len(st.Deadlocks) > 0 {
				x.Failf("C10/model/deadlock", "script %v: the model has %d deadlock states, e.g. %+v", names, len(st.Deadlocks), st.Deadlocks[0])
			}
			for code, cnt := range st.Violations {
				x.Failf(fmt.Sprintf("C10/model/invariant-%d", code), "script %v: %d model states violate invariant %d (1 reply/call mismatch, 2 command in the wrong state, 3 not quiescent at the end)", names, cnt, code)
			}
			if st.FinalStates == 0 {
				x.Failf("C10/model/no-final-state", "script %v: the model never finishes", names)
			}
			// ---- implementation: replay on a real container, log → acceptor
			c10lateFilter = false
			for _, n := range names {
				if n == "execve-filter-rejected-after-sync" {
					c10lateFilter = true
				}
			}
			env, err := c10build()
			c10lateFilter = false
			if err != nil {
				x.Failf("C10/harness", "build: %v", err)
				return
			}
			defer env.close()
			acc := m.NewAcceptor()
			fed := env.ctl.Len()
			var answers []string
			feed := func() bool {
				for _, e := range env.ctl.Log(fed) {
					fed++
					if _, named := vpNames[e.ID]; !named && e.Side != "X" {
						continue // a point that is no protocol event (the caller entering its wait for a reply): τ for the model
					}
					l := eventLabel(e)
					if !acc.Feed(l) {
						x.Failf("C10/impl/event-not-accepted:"+l, "script %v: after %d events the implementation produced %s, which no behaviour of the model allows here (model expects one of %v); init said %v",
							names, fed, l, acc.Enabled(), env.ctl.Text())
						return false
					}
				}
				return true
			}
			all := append(append([]c10op{}, ops...), suffix...)
			allSched := append(append([]string{}, scheds...), "", "exit-then-result")
			ok := true
			for k, op := range all {
				class, said, complaint, returned := env.perform(k, op, allSched[k])
				answers = append(answers, said)
				phase := "script"
				if k >= len(ops) {
					phase = "afterwards"
				}
				if !returned {
					x.Failf("C10/impl/call-did-not-return/"+phase+"/"+op.name, "script %v: call %d (%s) did not return within the horizon; init said %v", names, k, op.name, env.ctl.Text())
					ok = false
					break
				}
				if complaint != "" {
					key := "C10/impl/wrong-answer/" + op.name
					if phase == "afterwards" {
						key = "C10/impl/unusable-after/" + strings.Join(stripSched(names), "+")
					}
					x.Failf(key, "script %v: call %d (%s): %s; init said %v", names, k, op.name, complaint, env.ctl.Text())
				}
				env.ctl.Mark(fmt.Sprintf("RETURN(%d)", class))
				if !feed() {
					ok = false
					break
				}
			}
			if ok {
				// let the pumps finish (the host's last kill travels after the call returned)
				time.Sleep(5 * time.Millisecond)
				waitUntil(time.Second, func() bool { feed(); return acc.CanFinish() })
				if feed() && !acc.CanFinish() {
					x.Failf("C10/impl/not-quiescent", "script %v: at the end the event log leaves no quiescent final model state (model expects %v)", names, acc.Enabled())
				}
				x.Add("traces_validated_against_impl", 1)
			}
			x.Add("impl_events", int64(fed))
			if nontrivial {
				x.Distinct(fmt.Sprint(names, answers))
			}
			classes := ""
			for _, a := range answers {
				classes += strings.SplitN(a, " ", 2)[0] + ","
			}
			x.Outcome(fmt.Sprintf("ok=%v answers=%s", ok && !x.Failed(), classes))
		}
		return spec
	}
}

func stripSched(names []string) []string {
	var out []string
	for _, n := range names {
		if i := strings.Index(n, "{"); i >= 0 {
			n = n[:i]
		}
		out = append(out, n)
	}
	return out
}

// c10oversize: requests the framing layer cannot carry must fail as errors of that call and leave the environment usable.
func c10oversize(x *mc.X) {
	// … and so must requests whose descriptor list the kernel refuses to pass (a number that is not open, the close marker
	// -1 of the fork/exec layer, more descriptors than one message may carry): nothing was sent, only that call fails
	kind := x.Pick("oversize", "execve-env-40k", "open-300-paths", "symlink-long-target", "execve-closed-descriptor", "execve-descriptor-minus-one", "execve-254-descriptors", "execve-253-descriptors")
	x.Note("script", []string{kind})
	if x.Dry() {
		return
	}
	c, err := newContainer(nil)
	if err != nil {
		x.Failf("C10/harness", "%v", err)
		return
	}
	defer func() { withTimeout(horizon, func() { c.Destroy() }) }()
	var said string
	returned := withTimeout(horizon, func() {
		switch kind {
		case "execve-env-40k":
			p := execveParam([]string{"/probe/burn", "exit", "0"})
			p.Env = []string{"BIG=" + strings.Repeat("x", 40<<10)}
			res := c.Execve(context.Background(), p)
			said = fmt.Sprintf("%s %q", statusName(res.Status), res.Error)
		case "execve-closed-descriptor", "execve-descriptor-minus-one", "execve-254-descriptors", "execve-253-descriptors":
			p := execveParam([]string{"/probe/burn", "exit", "0"})
			switch kind {
			case "execve-closed-descriptor":
				// a number that is certainly not open: the highest one the process may have
				var rl unix.Rlimit
				unix.Getrlimit(unix.RLIMIT_NOFILE, &rl)
				p.Files = append(p.Files, uintptr(rl.Cur-1))
			case "execve-descriptor-minus-one":
				p.Files = append(p.Files, ^uintptr(0))
			case "execve-254-descriptors":
				for len(p.Files) < 254 {
					p.Files = append(p.Files, p.Files[0])
				}
			case "execve-253-descriptors":
				// the largest list one message carries: must simply work
				for len(p.Files) < 253 {
					p.Files = append(p.Files, p.Files[0])
				}
			}
			res := c.Execve(context.Background(), p)
			said = fmt.Sprintf("%s %q", statusName(res.Status), res.Error)
			if kind == "execve-253-descriptors" && res.Status != runner.StatusNormal {
				x.Failf("C10/oversize/largest-legal-request-failed/"+kind, "Execve with 253 descriptors (the most one message carries) answered %s", said)
			}
			if kind != "execve-253-descriptors" && res.Status == runner.StatusNormal {
				x.Failf("C10/oversize/impossible-request-succeeded/"+kind, "%s answered %s", kind, said)
			}
		case "open-300-paths":
			var cmds []container.OpenCmd
			for i := 0; i < 300; i++ {
				cmds = append(cmds, container.OpenCmd{Path: fmt.Sprintf("/w/%s-%d", strings.Repeat("p", 120), i), Flag: os.O_RDONLY})
			}
			res, err := c.Open(cmds)
			for _, r := range res {
				if r.File != nil {
					r.File.Close()
				}
			}
			said = fmt.Sprint(err)
		case "symlink-long-target":
			_, err := c.Symlink([]container.SymbolicLink{{LinkPath: "/w/l", Target: strings.Repeat("t", 40<<10)}})
			said = fmt.Sprint(err)
		}
	})
	x.Note("answer", said)
	x.Add("states", 1)
	x.Add("transitions", 1)
	if !returned {
		x.Failf("C10/oversize/call-did-not-return/"+kind, "%s did not return", kind)
		return
	}
	var perr error
	pinged := withTimeout(horizon, func() { perr = c.Ping() })
	x.Distinct(kind + said + fmt.Sprint(perr))
	x.Outcome(fmt.Sprintf("oversize:usable=%v", pinged && perr == nil))
	if !pinged || perr != nil {
		x.Failf("C10/oversize/unusable-after/"+kind, "%s answered %q; afterwards the environment is unusable (ping: %v)", kind, said, perr)
	}
}
