package main

import (
	"context"
	"encoding/json"
	"fmt"
	"os"
	"path/filepath"
	"runtime"
	"sort"
	"strings"
	"sync"
	"time"

	"github.com/criyle/go-sandbox/container"
	"github.com/criyle/go-sandbox/runner"
	"github.com/criyle/go-sandbox/runner/ptrace"
	"github.com/criyle/go-sandbox/runner/unshare"
	"verif/mc"
)

// C17 — concurrent sandboxes in one process are independent.
// Each run is cut into three gated phases (launch up to the callback; release the callback until the program reports;
// tell the program to end and wait for the verdict). All merges of the phase sequences of the concurrent runs are
// executed, one deterministic execution per merge, and every run must observe exactly what it observes alone.

type c17run struct {
	kind   string // ptrace | unshare | containerA | containerB
	tag    string
	exit   int
	nfiles int // number of extra descriptors (distinct files) in its list
	env    container.Environment

	// runtime
	dir      string
	stdinW   *os.File
	files    []*os.File
	pid      int
	syncHit  chan struct{}
	syncGo   chan struct{}
	done     chan struct{}
	res      runner.Result
	report   *report
	started  bool
	expIdent []ident
}

func (r *c17run) prepare() error {
	r.tag += "-" + newNonce() // output files of earlier executions on a pooled environment must not be mistaken for this run's
	r.dir = tmpDir("c17")
	os.Chmod(r.dir, 0777)
	r.syncHit, r.syncGo, r.done = make(chan struct{}), make(chan struct{}), make(chan struct{})
	return nil
}

// phase 1: start the run in its own goroutine and wait until its callback is entered
func (r *c17run) launch() error {
	pr, pw, err := os.Pipe()
	if err != nil {
		return err
	}
	r.stdinW = pw
	list := []uintptr{pr.Fd()}
	r.expIdent = nil
	id, _ := fdIdent(int(pr.Fd()))
	r.expIdent = append(r.expIdent, id)
	for i := 0; i < r.nfiles; i++ {
		f, err := os.Create(filepath.Join(r.dir, fmt.Sprintf("f%d", i)))
		if err != nil {
			return err
		}
		r.files = append(r.files, f)
		list = append(list, f.Fd())
		id, _ := fdIdent(int(f.Fd()))
		r.expIdent = append(r.expIdent, id)
	}
	// the list covers 0..2, so nothing of the launching process shows through
	for len(list) < 3 {
		list = append(list, devnull())
	}
	sync := func(pid int) error {
		r.pid = pid
		close(r.syncHit)
		<-r.syncGo
		return nil
	}
	args := func(exe, out string) []string {
		return []string{exe, "--outfile=" + out, "--wait", "--in=0", fmt.Sprintf("--exit=%d", r.exit), "tag-" + r.tag}
	}
	go func() {
		defer close(r.done)
		defer pr.Close()
		ctx, cancel := context.WithTimeout(context.Background(), 60*time.Second)
		defer cancel()
		switch r.kind {
		case "ptrace":
			r.res = runPtrace(ctx, args(probe("report"), filepath.Join(r.dir, "r.json")), func(p *ptrace.Runner) { p.Files = list; p.SyncFunc = sync })
		case "unshare":
			r.res = runUnshare(ctx, args("/probe/report", "/w/r.json"), func(p *unshare.Runner) { p.Files = list; p.SyncFunc = sync; p.Mounts = mustMounts(r.dir) })
		default:
			p := execveParam(args("/probe/report", "/w/r-"+r.tag+".json"))
			p.Files = list
			p.SyncFunc = sync
			r.res = r.env.Execve(ctx, p)
		}
	}()
	r.started = true
	select {
	case <-r.syncHit:
		return nil
	case <-r.done:
		return fmt.Errorf("run ended before its callback: %v %s", r.res.Status, r.res.Error)
	case <-time.After(horizon):
		return fmt.Errorf("callback not reached")
	}
}

func (r *c17run) outPath() string {
	switch r.kind {
	case "ptrace":
		return filepath.Join(r.dir, "r.json")
	case "unshare":
		return fmt.Sprintf("/proc/%d/root/w/r.json", r.pid)
	}
	return fmt.Sprintf("/proc/%d/root/w/r-%s.json", r.pid, r.tag)
}

// phase 2: release the callback and wait until the program has reported its descriptor table
func (r *c17run) release() error {
	close(r.syncGo)
	var rep *report
	ok := waitUntil(horizon, func() bool {
		b, err := os.ReadFile(r.outPath())
		if err != nil || len(b) == 0 {
			return false
		}
		var x report
		if json.Unmarshal(b, &x) != nil {
			return false
		}
		rep = &x
		return true
	})
	if !ok {
		return fmt.Errorf("program did not report")
	}
	r.report = rep
	return nil
}

// phase 3: let the program end and wait for the verdict
func (r *c17run) finish() error {
	// a byte, not EOF: a launcher child of the other run that is parked before its exec still holds a copy of the write end
	r.stdinW.Write([]byte{'x'})
	r.stdinW.Close()
	select {
	case <-r.done:
	case <-time.After(horizon):
		return fmt.Errorf("run did not return")
	}
	for _, f := range r.files {
		f.Close()
	}
	return nil
}

// observation in canonical form: verdict + which listed file each descriptor refers to
func (r *c17run) observation() string {
	var slots []string
	if r.report != nil {
		byIdent := map[ident]int{}
		for i, id := range r.expIdent {
			byIdent[id] = i
		}
		for _, f := range r.report.Fds {
			if i, ok := byIdent[ident{f.Dev, f.Ino}]; ok {
				slots = append(slots, fmt.Sprintf("%d=own[%d]", f.Fd, i))
			} else if f.Type == 2 { // character device: /dev/null
				slots = append(slots, fmt.Sprintf("%d=chr", f.Fd))
			} else {
				slots = append(slots, fmt.Sprintf("%d=FOREIGN(%d,%d)", f.Fd, f.Dev, f.Ino))
			}
		}
	}
	sort.Strings(slots)
	return fmt.Sprintf("%s exit=%d err=%q fds=%v", statusName(r.res.Status), r.res.ExitStatus, r.res.Error, slots)
}

// cntBefore counts the steps of run who among order[:k].
func cntBefore(order []int, k, who int) int {
	n := 0
	for _, o := range order[:k] {
		if o == who {
			n++
		}
	}
	return n
}

func c17abort(rs []*c17run) {
	for _, r := range rs {
		if r.started {
			select {
			case <-r.syncGo:
			default:
				close(r.syncGo)
			}
			if r.stdinW != nil {
				r.stdinW.Write([]byte{'x'})
				r.stdinW.Close()
			}
			select {
			case <-r.done:
			case <-time.After(horizon):
			}
		}
	}
}

var (
	c17envs   [2]container.Environment
	c17envsMu sync.Mutex
)

func c17env(i int) (container.Environment, error) {
	c17envsMu.Lock()
	defer c17envsMu.Unlock()
	if c17envs[i] == nil {
		c, err := newContainer(nil)
		if err != nil {
			return nil, err
		}
		c17envs[i] = c
	}
	return c17envs[i], nil
}

func c17drop() {
	for i := range c17envs {
		if c17envs[i] != nil {
			c17envs[i].Destroy()
			c17envs[i] = nil
		}
	}
}

func init() {
	registry["C17"] = func(tier string) *mc.Spec {
		pairs := [][]string{{"ptrace", "ptrace"}, {"ptrace", "unshare"}, {"ptrace", "containerA"}, {"unshare", "unshare"}, {"unshare", "containerA"}, {"containerA", "containerB"}}
		// thorough: three concurrent runs, every merge of their 3+3+3 phases (1680 per triple)
		triples := [][]string{{"ptrace", "unshare", "containerA"}, {"ptrace", "ptrace", "unshare"}, {"containerA", "containerB", "ptrace"}, {"unshare", "unshare", "containerA"}}
		families := []string{"pair-merge", "same-environment", "signal-of-a-finished-run", "program-file-busy-through-another-launch", "descriptor-of-another-run", "two-tracers-one-string-read"}
		if tier == "thorough" {
			families = append(families, "triple-merge")
		}
		spec := &mc.Spec{
			Level: "exploration",
			Rule: "pairs of concurrent runs over {ptrace, namespace, container A, container B} (thorough: also triples with the third run interleaved at every position), each cut into three gated phases; every merge of the phase sequences (20 per pair) is executed; each run has its own descriptor list (stdin pipe + 1/2 private files), exit code and output file; " +
				"plus calls on one environment issued while another call on it is in flight — while its program runs, or while it is still inside its synchronisation callback — (Execve behind Execve; Ping, Open, Reset behind a long Execve, incl. longer than the ping timeout). plus the signal of a finished run: the SIGKILL of a run's cancellation goroutine (ptrace tracer, namespace runner) released at once / after the run returned / once a later run's program exists under the finished run's process id (helper in a private pid namespace, pid space of the namespace made small through its pid_max so that ids come round within a few dozen forks) — in every schedule the code admits the later run ends as alone. Differential oracle: verdict, exit value and the program's descriptor table (every descriptor must be one of the run's own files) equal what the same run observes alone. " +
				"non-trivial: the merge actually overlaps the two runs; distinct = (pair, merge, observations)",
			Bound:       map[string]any{"phases_per_run": 3, "merges_per_pair": 20, "merges_per_triple(thorough)": 1680, "triples(thorough)": 4},
			Assumptions: []string{"schedules are exhaustive at phase granularity; thread-level interleavings inside fork…exec are not controlled (the fork lock is observed through descriptor tables only)"},
			SplitDepth:  2,
			Workers:     4,
			Horizon:     120 * time.Second,
		}
		spec.Init = func() error { devnull(); return nil }
		spec.Fini = func() { c17drop(); cleanupTmp() }
		spec.Body = func(x *mc.X) {
			fam := x.Pick("family", families...)
			if fam == "same-environment" {
				c17sameEnv(x)
				return
			}
			if fam == "signal-of-a-finished-run" {
				c17late(x)
				return
			}
			if fam == "two-tracers-one-string-read" {
				c17twoTracers(x)
				return
			}
			if fam == "descriptor-of-another-run" {
				c17holders(x, tier)
				return
			}
			if fam == "program-file-busy-through-another-launch" {
				c17execBusy(x)
				return
			}
			sets := pairs
			if fam == "triple-merge" {
				sets = triples
			}
			pair := sets[x.Choose(len(sets), "runs")]
			n := len(pair)
			// a merge = which run performs each of the 3n steps (three per run)
			var order []int
			cnt := make([]int, n)
			for len(order) < 3*n {
				var open []int
				for i := 0; i < n; i++ {
					if cnt[i] < 3 {
						open = append(open, i)
					}
				}
				c := open[0]
				if len(open) > 1 {
					c = open[x.Choose(len(open), "next")]
				}
				order = append(order, c)
				cnt[c]++
			}
			x.Note("runs", pair)
			x.Note("merge", order)
			if x.Dry() {
				return
			}
			mk := func(i int, kind string) (*c17run, error) {
				r := &c17run{kind: kind, tag: fmt.Sprintf("%c", 'A'+i), exit: 11 + i, nfiles: 1 + i%2}
				if strings.HasPrefix(kind, "container") {
					idx := 0
					if kind == "containerB" {
						idx = 1
					}
					e, err := c17env(idx)
					if err != nil {
						return nil, err
					}
					r.env = e
				}
				return r, r.prepare()
			}
			// reference: each run alone
			alone := make([]string, n)
			for i := 0; i < n; i++ {
				r, err := mk(i, pair[i])
				if err != nil {
					x.Failf("C17/harness", "%v", err)
					return
				}
				for _, step := range []func() error{r.launch, r.release, r.finish} {
					if err := step(); err != nil {
						c17abort([]*c17run{r})
						x.Failf("C17/alone-run-failed/"+pair[i], "%s alone: %v", pair[i], err)
						return
					}
				}
				alone[i] = r.observation()
				os.RemoveAll(r.dir)
			}
			// the merge
			rs := make([]*c17run, n)
			for i := 0; i < n; i++ {
				r, err := mk(i, pair[i])
				if err != nil {
					x.Failf("C17/harness", "%v", err)
					return
				}
				rs[i] = r
			}
			defer func() {
				for _, r := range rs {
					os.RemoveAll(r.dir)
				}
			}()
			phase := make([]int, n)
			for _, who := range order {
				r := rs[who]
				var err error
				switch phase[who] {
				case 0:
					err = r.launch()
				case 1:
					err = r.release()
				case 2:
					err = r.finish()
				}
				if err != nil {
					c17abort(rs)
					x.Failf(fmt.Sprintf("C17/concurrent-run-stuck/%s", strings.Join(pair, "+")), "runs %v merge %v: run %d phase %d: %v", pair, order, who, phase[who], err)
					c17drop()
					return
				}
				phase[who]++
			}
			// the merge overlaps the runs unless every run completes before the next one starts
			overlap := false
			for k := 1; k < len(order); k++ {
				if order[k] != order[k-1] && cntBefore(order, k, order[k-1]) < 3 {
					overlap = true
				}
			}
			for i := 0; i < n; i++ {
				got := rs[i].observation()
				if overlap {
					x.Distinct(fmt.Sprint(pair, order, i, got))
				}
				others := strings.Join(append(append([]string{}, pair[:i]...), pair[i+1:]...), "+")
				if got != alone[i] {
					x.Failf(fmt.Sprintf("C17/differs-from-alone/%s-with-%s", pair[i], others), "runs %v merge %v: run %d (%s) observed\n   %s\n alone it observes\n   %s", pair, order, i, pair[i], got, alone[i])
				}
				if strings.Contains(got, "FOREIGN") {
					x.Failf(fmt.Sprintf("C17/foreign-descriptor/%s-with-%s", pair[i], others), "runs %v merge %v: run %d received a descriptor that is not its own: %s", pair, order, i, got)
				}
			}
			x.Outcome(fmt.Sprintf("%s:%v", strings.Join(pair, "+"), !x.Failed()))
		}
		return spec
	}
}

// calls on one environment while another call on it is in flight
func c17sameEnv(x *mc.X) {
	second := x.Pick("second-call", "execve", "ping", "open", "reset", "ping-behind-execve-longer-than-ping-timeout",
		"failing-ptrace-run-on-the-thread-that-built-the-environment", "failing-namespace-run-on-the-thread-that-built-the-environment")
	// when the second call is issued: while the first call's program runs, or while the first call is still inside its
	// synchronisation callback (the container then waits for the host's go-ahead: a command slipping in there is taken
	// for it)
	during := "program-runs"
	if !strings.HasPrefix(second, "failing-") && second != "ping-behind-execve-longer-than-ping-timeout" {
		during = x.Pick("issued-while", "program-runs", "first-call-is-inside-its-callback")
	}
	x.Note("same-environment", "execve in flight ("+during+"), then "+second)
	if x.Dry() {
		return
	}
	if strings.HasPrefix(second, "failing-") {
		c17threadExit(x, second)
		return
	}
	e, err := c17env(0)
	if err != nil {
		x.Failf("C17/harness", "%v", err)
		return
	}
	r := &c17run{kind: "containerA", tag: "A", exit: 11, nfiles: 1, env: e}
	r.prepare()
	defer os.RemoveAll(r.dir)
	if err := r.launch(); err != nil {
		c17abort([]*c17run{r})
		x.Failf("C17/same-env/harness", "%v", err)
		return
	}
	if during == "program-runs" {
		if err := r.release(); err != nil {
			c17abort([]*c17run{r})
			x.Failf("C17/same-env/first-run-stuck", "%v", err)
			return
		}
	}
	// second call is issued now; it must wait for the first and then complete normally
	out := make(chan string, 1)
	go func() {
		switch second {
		case "execve":
			res := e.Execve(context.Background(), execveParam([]string{"/probe/burn", "exit", "5"}))
			out <- fmt.Sprintf("%s exit=%d %q", statusName(res.Status), res.ExitStatus, res.Error)
		case "ping", "ping-behind-execve-longer-than-ping-timeout":
			out <- fmt.Sprint(e.Ping())
		case "open":
			fr, err := e.Open([]container.OpenCmd{{Path: "/w/second", Flag: os.O_CREATE | os.O_WRONLY, Perm: 0644}})
			for _, f := range fr {
				if f.File != nil {
					f.File.Close()
				}
			}
			out <- fmt.Sprint(err)
		case "reset":
			out <- fmt.Sprint(e.Reset())
		}
	}()
	hold := 50 * time.Millisecond
	if second == "ping-behind-execve-longer-than-ping-timeout" {
		hold = 3500 * time.Millisecond
	}
	time.Sleep(hold)
	if during != "program-runs" {
		// the first call has not even been told to go ahead: whatever the second call is, it cannot be over yet
		select {
		case early := <-out:
			x.Failf("C17/same-env/second-call-overtook-the-first/"+second, "a %s issued while the first execve was inside its callback returned %s before that callback had returned", second, early)
			out <- early
		default:
		}
		if err := r.release(); err != nil {
			c17abort([]*c17run{r})
			x.Failf("C17/same-env/first-run-stuck", "%v", err)
			c17drop()
			return
		}
	}
	if err := r.finish(); err != nil {
		c17abort([]*c17run{r})
		x.Failf("C17/same-env/first-run-stuck", "%v", err)
		c17drop()
		return
	}
	var said string
	select {
	case said = <-out:
	case <-time.After(horizon):
		x.Failf("C17/same-env/second-call-hangs/"+second, "the %s issued behind the running execve never returned", second)
		c17drop()
		return
	}
	first := r.observation()
	want := map[string]string{"execve": `Nonzero Exit Status exit=5 ""`, "ping": "<nil>", "ping-behind-execve-longer-than-ping-timeout": "<nil>", "open": "<nil>", "reset": "<nil>"}[second]
	x.Distinct(fmt.Sprint(second, during, first, said))
	x.Outcome("same-env:" + second)
	if !strings.HasPrefix(first, "Nonzero Exit Status exit=11 err=\"\"") || strings.Contains(first, "FOREIGN") {
		x.Failf("C17/same-env/first-call-disturbed/"+second, "execve with a %s queued behind it observed %s", second, first)
		c17drop()
	}
	if said != want {
		x.Failf("C17/same-env/second-call-wrong/"+second, "%s queued behind a running execve returned %s, alone it returns %s", second, said, want)
		c17drop()
	}
}

// c17threadExit: a goroutine pinned to one thread builds an environment, then performs a run of another runner whose
// start fails, and ends. The environment (whose init was forked from that thread) must be unaffected: a run that is in
// flight on it and later calls behave as alone.
func c17threadExit(x *mc.X, kind string) {
	envCh := make(chan container.Environment, 1)
	goOn := make(chan struct{})
	done := make(chan struct{})
	go func() {
		defer close(done)
		runtime.LockOSThread()
		defer runtime.UnlockOSThread() // balanced: the thread survives unless the library leaves its own lock behind
		e, err := newContainer(nil)
		if err != nil {
			envCh <- nil
			return
		}
		envCh <- e
		<-goOn
		fail := func(int) error { return fmt.Errorf("callback refuses") }
		if strings.Contains(kind, "ptrace") {
			runPtrace(context.Background(), []string{probe("burn"), "exit", "0"}, func(r *ptrace.Runner) { r.SyncFunc = fail })
		} else {
			runUnshare(context.Background(), []string{"/probe/burn", "exit", "0"}, func(r *unshare.Runner) { r.SyncFunc = fail })
		}
	}()
	e := <-envCh
	if e == nil {
		x.Failf("C17/harness", "cannot build the environment")
		return
	}
	defer e.Destroy()
	r := &c17run{kind: "containerA", tag: "T", exit: 11, nfiles: 1, env: e}
	r.prepare()
	defer os.RemoveAll(r.dir)
	if err := r.launch(); err == nil {
		err = r.release()
		if err != nil {
			c17abort([]*c17run{r})
			x.Failf("C17/thread/harness", "%v", err)
			return
		}
	} else {
		c17abort([]*c17run{r})
		x.Failf("C17/thread/harness", "%v", err)
		return
	}
	close(goOn)
	<-done
	time.Sleep(50 * time.Millisecond) // the thread (if it is going to) has exited by now
	ferr := r.finish()
	first := r.observation()
	perr := envUsable(e)
	pinged := true
	x.Distinct(fmt.Sprint(kind, first, perr))
	x.Outcome("thread-exit:" + kind)
	if ferr != nil || !strings.HasPrefix(first, "Nonzero Exit Status exit=11 err=\"\"") {
		x.Failf("C17/thread/in-flight-run-disturbed/"+kind, "a %s ended the run that was in flight on an unrelated environment: %s (%v)", kind, first, ferr)
	}
	if !pinged || perr != nil {
		x.Failf("C17/thread/environment-lost/"+kind, "after a %s the unrelated environment is gone: ping says %v", kind, perr)
	}
}
