package main

import (
	"context"
	"fmt"
	"os"
	"path/filepath"
	"strconv"
	"strings"
	"time"

	"github.com/criyle/go-sandbox/runner"
	"verif/mc"
)

// C11, family "cancel right after a refused launch whose descendant dies slowly": a sync-after-exec launch is refused by
// its callback while one descendant of the program is frozen (cgroup freezer — the deterministic stand-in for a task that
// takes long to die); the descendant is thawed half a second later. Whatever the first call does about that descendant, a
// second run on the same environment, started as soon as the first call has returned and cancelled while its program
// runs, must return promptly as Time Limit Exceeded, and the environment stays usable.
func c11slowDescendant(x *mc.X) {
	second := x.Pick("second-run-synchronises", "before-exec", "after-exec")
	when := x.Pick("second-run-cancelled", "in-callback", "while-running")
	if x.Dry() {
		return
	}
	if _, err := os.Stat("/sys/fs/cgroup/freezer/cgroup.procs"); err != nil {
		x.Outcome("n/a:no-freezer-hierarchy")
		return
	}
	env, err := c10build()
	if err != nil {
		x.Failf("C11/harness", "%v", err)
		return
	}
	defer env.close()
	nonce := newNonce()
	frz := filepath.Join("/sys/fs/cgroup/freezer", "verif-frz-"+nonce)
	if err := os.Mkdir(frz, 0755); err != nil {
		x.Failf("C11/harness", "freezer group: %v", err)
		return
	}
	thaw := func() { os.WriteFile(filepath.Join(frz, "freezer.state"), []byte("THAWED"), 0644) }
	defer func() {
		thaw()
		waitUntil(horizon, func() bool { return os.Remove(frz) == nil })
	}()
	frozen := 0
	p := execveParam([]string{"/probe/tree", nonce, "p,p", "pause"})
	p.SyncAfterExec = true
	p.SyncFunc = func(int) error {
		// the program runs already: wait for its tree, freeze one descendant, refuse the launch
		var kids []int
		waitUntil(horizon, func() bool {
			kids = nil
			ps := scanNonce(nonce)
			in := map[int]bool{}
			for _, q := range ps {
				in[q] = true
			}
			for _, q := range ps {
				if in[ppidOf(q)] {
					kids = append(kids, q)
				}
			}
			return len(kids) >= 2
		})
		if len(kids) == 0 {
			return fmt.Errorf("no descendant")
		}
		frozen = kids[0]
		os.WriteFile(filepath.Join(frz, "cgroup.procs"), []byte(strconv.Itoa(frozen)), 0644)
		os.WriteFile(filepath.Join(frz, "freezer.state"), []byte("FROZEN"), 0644)
		waitUntil(horizon, func() bool {
			b, _ := os.ReadFile(filepath.Join(frz, "freezer.state"))
			return strings.TrimSpace(string(b)) == "FROZEN"
		})
		time.AfterFunc(500*time.Millisecond, thaw)
		return fmt.Errorf("callback refuses")
	}
	var res1 runner.Result
	if !withTimeout(horizon, func() { res1 = env.c.Execve(context.Background(), p) }) {
		x.Failf("C11/slow-descendant/refused-call-hangs", "the refused launch did not return although its frozen descendant was thawed after 0.5 s")
		return
	}
	if frozen == 0 || res1.Status != runner.StatusRunnerError {
		x.Failf("C11/harness", "first call: frozen=%d result %v %q", frozen, res1.Status, res1.Error)
		return
	}
	// second run, at once
	nonce2 := newNonce()
	ctx, cancel := context.WithCancel(context.Background())
	defer cancel()
	p2 := execveParam([]string{"/probe/burn", "pause", nonce2})
	p2.SyncAfterExec = second == "after-exec"
	p2.SyncFunc = func(pid int) error {
		if when == "in-callback" {
			cancel()
		} else {
			go func() {
				waitUntil(horizon, func() bool { return len(scanNonce(nonce2)) > 0 })
				cancel()
			}()
		}
		return nil
	}
	var res2 runner.Result
	returned := withTimeout(horizon, func() { res2 = env.c.Execve(ctx, p2) })
	x.Note("result", fmt.Sprintf("first %s %q; second %s exit=%d %q returned=%v", statusName(res1.Status), res1.Error, statusName(res2.Status), res2.ExitStatus, res2.Error, returned))
	c11judge(x, "container-after-refusal-with-slow-descendant", second+"+"+when, "pause", res2, returned, nonce2)
	if returned {
		if perr := envUsable(env.c); perr != nil {
			x.Failf("C11/slow-descendant/unusable-afterwards", "after the cancelled second run the next request: %v", perr)
		}
	}
	x.Distinct(fmt.Sprint("slow", second, when, res2.Status, returned))
	x.Outcome("slow-descendant:" + statusName(res2.Status))
}
