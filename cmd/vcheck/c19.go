package main

import (
	"bytes"
	"fmt"
	"os"
	"path/filepath"
	"strings"
	"syscall"
	"time"

	"github.com/criyle/go-sandbox/container"
	"github.com/criyle/go-sandbox/pkg/unixsocket"
	"golang.org/x/sys/unix"
	"verif/mc"
)

// C19 — the control socket delivers messages, descriptors and credentials intact or not at all.

var c19files []*os.File // 254 distinct open files, identity = (dev, ino)

func c19setup() error {
	dir := tmpDir("c19")
	for i := 0; i < 254; i++ {
		f, err := os.Create(filepath.Join(dir, fmt.Sprintf("f%03d", i)))
		if err != nil {
			return err
		}
		c19files = append(c19files, f)
	}
	return nil
}

type c19msg struct {
	size  int
	nfds  int
	cred  int // 0 none, 1 own ids, 2 other ids
	fill  byte
	rbuf  int // receive buffer size used for this message
	label string
}

func (m c19msg) String() string {
	return fmt.Sprintf("payload=%d fds=%d cred=%d rbuf=%d", m.size, m.nfds, m.cred, m.rbuf)
}

func c19cred(kind int) *syscall.Ucred {
	switch kind {
	case 1:
		return &syscall.Ucred{Pid: int32(os.Getpid()), Uid: 0, Gid: 0}
	case 2:
		return &syscall.Ucred{Pid: int32(os.Getpid()), Uid: 4242, Gid: 2424}
	}
	return nil
}

func init() {
	registry["C19"] = func(tier string) *mc.Spec {
		sizes := []int{0, 1, 4095, 4096, 4097, 32 << 10, 32<<10 + 1, 200 << 10}
		nfds := []int{0, 1, 2, 253, 254}
		rbufs := []int{4096, 64 << 10}
		seqLen := 2
		if tier == "thorough" {
			seqLen = 3
			rbufs = []int{64, 4096, 32 << 10, 64 << 10}
		}
		spec := &mc.Spec{
			Level: "exploration",
			Rule: "raw layer: every sequence of ≤ seqLen messages on a real SOCK_SEQPACKET pair, the first message over the full payload size × descriptor count × credentials × receive buffer size alphabet, later ones over a reduced alphabet that keeps every class (all sends first, then all receives; thorough also alternating); framed layer (verif-exported constructor): command/reply types in first-use and repeat position, payloads around the 32 KiB frame, a send that is rejected before or inside sendmsg followed by a normal message. " +
				"Oracle: reference FIFO — every message either arrives whole, in order, with descriptors of identical (dev, ino) in order and close-on-exec set, and the sent credentials, or an error is reported on the sending or receiving side; the process's descriptor count returns to its value before the sequence once delivered descriptors are closed; a later message is unaffected by an earlier rejected one. " +
				"non-trivial: the message carries descriptors or credentials or does not fit; distinct = (sequence, per-message outcome)",
			Bound:       map[string]any{"sizes": sizes, "fds": nfds, "rbufs": rbufs, "seq_len": seqLen},
			Assumptions: []string{"both ends live in one process; SO_PASSCRED is set on the receiving end"},
			SplitDepth:  3,
			Workers:     8,
			Horizon:     60 * time.Second,
		}
		spec.Init = func() error { devnull(); return c19setup() }
		spec.Fini = cleanupTmp
		spec.Body = func(x *mc.X) {
			if x.Choose(2, "layer") == 1 {
				c19framed(x)
				return
			}
			n := 1 + x.Choose(seqLen, "len")
			alternate := false
			if tier == "thorough" && n > 1 {
				alternate = x.Bool("alternate")
			}
			var seq []c19msg
			for i := 0; i < n; i++ {
				m := c19msg{fill: byte('a' + i)}
				if i == 0 {
					m.size = sizes[x.Choose(len(sizes), "size")]
					m.nfds = nfds[x.Choose(len(nfds), "fds")]
					m.cred = x.Choose(3, "cred")
					m.rbuf = rbufs[x.Choose(len(rbufs), "rbuf")]
				} else if i == 1 && tier == "thorough" {
					// thorough: the second message still spans every class (empty, small, over a page, over the frame; no / some / too many descriptors)
					m.size = []int{0, 1, 4097, 32<<10 + 1}[x.Choose(4, "size")]
					m.nfds = []int{0, 2, 254}[x.Choose(3, "fds")]
					m.cred = x.Choose(3, "cred")
					m.rbuf = []int{64, 64 << 10}[x.Choose(2, "rbuf")]
				} else {
					// later messages are drawn from a reduced alphabet
					m.size = []int{1, 4097}[x.Choose(2, "size")]
					m.nfds = []int{0, 2}[x.Choose(2, "fds")]
					m.cred = x.Choose(2, "cred")
					m.rbuf = 4096
				}
				seq = append(seq, m)
			}
			// how many descriptor numbers the receiving process has left when the message arrives (its open-file limit)
			slots := -1
			if n == 1 && seq[0].nfds >= 2 && seq[0].nfds <= 253 {
				slots = []int{-1, 1, 0}[x.Choose(3, "receiver-free-descriptor-slots")]
			}
			if x.Dry() {
				return
			}
			c19raw(x, seq, alternate, slots)
		}
		return spec
	}
}

func c19raw(x *mc.X, seq []c19msg, alternate bool, slots int) {
	var names []string
	for _, m := range seq {
		names = append(names, m.String())
	}
	x.Note("layer", "raw")
	x.Note("sequence", names)
	if slots >= 0 {
		x.Note("receiver-free-descriptor-slots", slots)
	}
	before := fdSet()
	a, b, err := unixsocket.NewSocketPair()
	if err != nil {
		x.Failf("C19/harness", "%v", err)
		return
	}
	b.SetPassCred(1)
	// a send that cannot proceed (socket buffer full, nothing received yet) is cut after a short wait and counted as "not
	// sent"; a receive is only attempted for a message that was sent, so it finds the message queued and the long
	// deadline matters only when something is really missing — no verdict depends on a short wall-clock bound
	b.SetReadDeadline(time.Now().Add(20 * time.Second))
	type c19held struct {
		i          int
		cred, want *syscall.Ucred
	}
	var held []c19held
	sent := make([]bool, len(seq))
	sendErr := make([]error, len(seq))
	outcome := ""
	recvOne := func(i int) {
		m := seq[i]
		if !sent[i] {
			outcome += "s"
			return
		}
		buf := make([]byte, m.rbuf)
		restore := func() {}
		if slots >= 0 {
			restore = c19limitSlots(slots)
		}
		n, msg, err := b.RecvMsg(buf)
		restore()
		ctx := fmt.Sprintf("sequence %v, message %d (%s)", names, i, m)
		if slots >= 0 {
			ctx += fmt.Sprintf(", receiver has %d free descriptor numbers", slots)
		}
		if err != nil {
			outcome += "r"
			// rejected on the receiving side: legitimate only if it cannot fit / be represented
			fits := m.size <= m.rbuf && m.size > 0
			if fits && m.nfds <= 253 && (slots < 0 || slots >= m.nfds) {
				x.Failf("C19/raw/good-message-rejected", "%s: RecvMsg failed (%v) although the message fits", ctx, err)
			}
			return
		}
		outcome += "d"
		key := func(k string) string {
			if m.size == 0 {
				return "C19/raw/empty-payload/" + k
			}
			return "C19/raw/" + k
		}
		if n != m.size || !bytes.Equal(buf[:n], bytes.Repeat([]byte{m.fill}, m.size)) {
			x.Failf(key("payload-altered"), "%s: delivered %d bytes (first %q), sent %d bytes of %q", ctx, n, firstByte(buf[:n]), m.size, string(m.fill))
		}
		if len(msg.Fds) != m.nfds {
			x.Failf(key("descriptor-count"), "%s: %d descriptors delivered, %d sent", ctx, len(msg.Fds), m.nfds)
		}
		for j, fd := range msg.Fds {
			if j < m.nfds {
				want, _ := fdIdent(int(c19files[j].Fd()))
				got, _ := fdIdent(fd)
				if got != want {
					x.Failf(key("descriptor-identity"), "%s: descriptor %d refers to another file", ctx, j)
				}
				if fl, _ := unix.FcntlInt(uintptr(fd), unix.F_GETFD, 0); fl&unix.FD_CLOEXEC == 0 {
					x.Failf(key("descriptor-not-cloexec"), "%s: descriptor %d arrived without close-on-exec", ctx, j)
				}
			}
			unix.Close(fd)
		}
		if want := c19cred(m.cred); want != nil {
			if msg.Cred == nil || msg.Cred.Uid != want.Uid || msg.Cred.Gid != want.Gid || msg.Cred.Pid != want.Pid {
				x.Failf(key("credentials"), "%s: credentials %+v delivered, %+v sent", ctx, msg.Cred, want)
			}
		}
		// a delivered message stays what it was: the receiver may still hold the previous message (payload copy and
		// credentials) when it receives the next one — or fails to
		held = append(held, c19held{i: i, cred: msg.Cred, want: c19cred(m.cred)})
	}
	recheckHeld := func(after string) {
		for _, h := range held {
			if h.want == nil || h.cred == nil {
				continue
			}
			if h.cred.Uid != h.want.Uid || h.cred.Gid != h.want.Gid || h.cred.Pid != h.want.Pid {
				x.Failf("C19/raw/credentials-changed-after-delivery", "sequence %v: the credentials delivered with message %d read %+v %s, they were %+v when delivered", names, h.i, *h.cred, after, *h.want)
			}
		}
	}
	_ = recheckHeld
	sendOne := func(i int) {
		m := seq[i]
		var fds []int
		for j := 0; j < m.nfds; j++ {
			fds = append(fds, int(c19files[j].Fd()))
		}
		a.SetWriteDeadline(time.Now().Add(100 * time.Millisecond))
		sendErr[i] = a.SendMsg(bytes.Repeat([]byte{m.fill}, m.size), unixsocket.Msg{Fds: fds, Cred: c19cred(m.cred)})
		sent[i] = sendErr[i] == nil
		if sendErr[i] != nil && os.IsTimeout(sendErr[i]) {
			return // the socket buffer is full because nothing has been received yet: not a rejection, the message simply was not sent
		}
		if sendErr[i] != nil && m.size <= 32<<10 && m.size > 0 && m.nfds <= 253 {
			x.Failf("C19/raw/good-message-not-sent", "sequence %v, message %d (%s): SendMsg failed: %v", names, i, m, sendErr[i])
		}
	}
	if alternate {
		for i := range seq {
			sendOne(i)
			recvOne(i)
			recheckHeld(fmt.Sprintf("after the receive of message %d", i))
		}
	} else {
		for i := range seq {
			sendOne(i)
		}
		for i := range seq {
			recvOne(i)
			recheckHeld(fmt.Sprintf("after the receive of message %d", i))
		}
	}
	a.Close()
	b.Close()
	leaked := leakedTestFiles(before)
	nontrivial := false
	for _, m := range seq {
		if m.nfds > 0 || m.cred > 0 || m.size > m.rbuf || m.size == 0 {
			nontrivial = true
		}
	}
	if nontrivial {
		x.Distinct(fmt.Sprint(names, alternate, slots, outcome))
	}
	if slots >= 0 {
		outcome += fmt.Sprintf("/slots=%d", slots)
	}
	x.Outcome("raw:" + outcome)
	if leaked != 0 {
		kind := "C19/raw/descriptor-leak"
		for i, m := range seq {
			if sent[i] && m.size > m.rbuf && m.nfds > 0 {
				kind = "C19/raw/descriptor-leak/truncated-message"
			}
		}
		x.Failf(kind, "sequence %v (outcome %s): %d descriptors that arrived with a message are still open after everything delivered was closed", names, outcome, leaked)
		// close the leaked descriptors so that later executions start clean
		closeLeaked(before)
	}
}

func firstByte(b []byte) string {
	if len(b) == 0 {
		return ""
	}
	return string(b[:1])
}

// fdSet lists the open descriptors of this process.
func fdSet() map[int]bool {
	out := map[int]bool{}
	ents, _ := os.ReadDir("/proc/self/fd")
	for _, e := range ents {
		var n int
		fmt.Sscan(e.Name(), &n)
		out[n] = true
	}
	return out
}

// closeLeaked closes descriptors that were not open in the snapshot taken before the sequence and that refer to one of
// the harness's own test files (nothing else is ever closed: the Go runtime opens descriptors of its own).
func closeLeaked(snapshot map[int]bool) {
	mine := map[ident]bool{}
	for _, f := range c19files {
		id, _ := fdIdent(int(f.Fd()))
		mine[id] = true
	}
	for fd := range fdSet() {
		if snapshot[fd] {
			continue
		}
		if id, ok := fdIdent(fd); ok && mine[id] {
			unix.Close(fd)
		}
	}
}

// leakedTestFiles counts descriptors not in the snapshot that refer to the harness's test files.
func leakedTestFiles(snapshot map[int]bool) int {
	mine := map[ident]bool{}
	for _, f := range c19files {
		id, _ := fdIdent(int(f.Fd()))
		mine[id] = true
	}
	n := 0
	for fd := range fdSet() {
		if snapshot[fd] {
			continue
		}
		if id, ok := fdIdent(fd); ok && mine[id] {
			n++
		}
	}
	return n
}

func c19framed(x *mc.X) {
	scenarios := []string{"cmd-first-use", "cmd-repeat", "reply-first-use", "reply-with-fds", "cmd-with-fds-and-cred", "oversize-then-normal", "badfd-then-normal", "normal-oversize-normal", "reply-oversize-then-normal", "undecodable-packet-then-normal"}
	sc := scenarios[x.Choose(len(scenarios), "scenario")]
	sizes := []int{1, 1000, 31 << 10, 32<<10 - 200, 33 << 10, 40 << 10}
	size := sizes[x.Choose(len(sizes), "payload")]
	warm := x.Bool("types-already-exchanged")
	pos := "first-use"
	if warm {
		pos = "warm"
	}
	x.Note("layer", "framed")
	x.Note("scenario", fmt.Sprintf("%s payload≈%d (%s)", sc, size, pos))
	scName := sc
	sc = sc + "/" + pos
	if x.Dry() {
		return
	}
	before := fdSet()
	a, b, err := unixsocket.NewSocketPair()
	if err != nil {
		x.Failf("C19/harness", "%v", err)
		return
	}
	b.SetPassCred(1)
	a.SetPassCred(1)
	dl := time.Now().Add(20 * time.Second) // only reached when a message that was sent never arrives
	a.SetDeadline(dl)
	b.SetDeadline(dl)
	sa, sb := container.NewVerifSocket(a), container.NewVerifSocket(b)
	defer func() {
		a.Close()
		b.Close()
		if n := leakedTestFiles(before); n != 0 {
			x.Failf("C19/framed/descriptor-leak/"+sc, "%s: %d descriptors that arrived with a message are still open", sc, n)
			closeLeaked(before)
		}
	}()
	big := strings.Repeat("p", size)
	fds2 := []int{int(c19files[0].Fd()), int(c19files[1].Fd())}
	outcome := ""
	// expectCmd receives one command on b and compares it with what was sent
	expectCmd := func(typ int, argv []string, nfds int, what string) {
		t, av, _, m, err := sb.RecvCmd()
		if err != nil {
			for _, fd := range m.Fds {
				unix.Close(fd) // the caller of a failed receive still owns what arrived
			}
			outcome += "r"
			x.Failf("C19/framed/message-lost/"+sc, "%s (payload %d): %s was not delivered: %v", sc, size, what, err)
			return
		}
		outcome += "d"
		if t != typ || strings.Join(av, "\x00") != strings.Join(argv, "\x00") {
			x.Failf("C19/framed/wrong-message/"+sc, "%s (payload %d): expected %s (type %d, %d args), received type %d with %d args (first arg %.20q…)", sc, size, what, typ, len(argv), t, len(av), append(av, "")[0])
		}
		if len(m.Fds) != nfds {
			x.Failf("C19/framed/descriptor-count/"+sc, "%s: %s arrived with %d descriptors, %d sent", sc, what, len(m.Fds), nfds)
		}
		for j, fd := range m.Fds {
			if j < nfds {
				want, _ := fdIdent(fds2[j])
				got, _ := fdIdent(fd)
				if got != want {
					x.Failf("C19/framed/descriptor-identity/"+sc, "%s: descriptor %d of %s refers to another file", sc, j, what)
				}
			}
			unix.Close(fd)
		}
	}
	fits := size < 32<<10-300
	if warm {
		// one small message of each type in each direction first, so that the gob type descriptions are known
		sa.SendCmd(1, []string{"warm"}, []string{"e"}, unixsocket.Msg{})
		sb.RecvCmd()
		sb.SendReply("warm", []string{"w"}, nil, unixsocket.Msg{})
		sa.RecvReply()
	}
	switch scName {
	case "cmd-first-use", "cmd-repeat":
		reps := 1
		if scName == "cmd-repeat" {
			reps = 3
		}
		for i := 0; i < reps; i++ {
			argv := []string{fmt.Sprint("msg", i), big}
			err := sa.SendCmd(5, argv, nil, unixsocket.Msg{})
			if err != nil {
				outcome += "s"
				if fits {
					x.Failf("C19/framed/good-message-not-sent/"+sc, "payload %d: %v", size, err)
				}
				continue
			}
			expectCmd(5, argv, 0, fmt.Sprint("command ", i))
		}
	case "reply-first-use", "reply-with-fds":
		var m unixsocket.Msg
		n := 0
		if scName == "reply-with-fds" {
			m.Fds, n = fds2, 2
		}
		err := sb.SendReply(big, []string{"x", ""}, nil, m)
		if err != nil {
			outcome += "s"
			if fits {
				x.Failf("C19/framed/good-message-not-sent/"+sc, "payload %d: %v", size, err)
			}
			break
		}
		et, batch, _, rm, err := sa.RecvReply()
		if err != nil {
			outcome += "r"
			x.Failf("C19/framed/message-lost/"+sc, "reply payload %d not delivered: %v", size, err)
			break
		}
		outcome += "d"
		if et != big || len(batch) != 2 || len(rm.Fds) != n {
			x.Failf("C19/framed/wrong-message/"+sc, "reply payload %d: text %d bytes, batch %v, %d fds", size, len(et), batch, len(rm.Fds))
		}
		for _, fd := range rm.Fds {
			unix.Close(fd)
		}
	case "cmd-with-fds-and-cred":
		argv := []string{"with-fds", big}
		err := sa.SendCmd(2, argv, nil, unixsocket.Msg{Fds: fds2, Cred: c19cred(1)})
		if err != nil {
			outcome += "s"
			if fits {
				x.Failf("C19/framed/good-message-not-sent/"+sc, "payload %d: %v", size, err)
			}
			break
		}
		expectCmd(2, argv, 2, "command with descriptors")
	case "oversize-then-normal", "normal-oversize-normal":
		if scName == "normal-oversize-normal" {
			sa.SendCmd(1, []string{"first"}, nil, unixsocket.Msg{})
			expectCmd(1, []string{"first"}, 0, "the first normal command")
		}
		err := sa.SendCmd(5, []string{"huge", strings.Repeat("h", 40<<10)}, nil, unixsocket.Msg{})
		if err == nil {
			x.Failf("C19/framed/oversize-accepted", "a 40 KiB command was accepted by the 32 KiB frame")
		}
		argv := []string{"after-the-rejected-one", big}
		err = sa.SendCmd(3, argv, nil, unixsocket.Msg{Fds: fds2})
		if err != nil {
			outcome += "s"
			if fits {
				x.Failf("C19/framed/later-message-affected/"+sc, "after a rejected oversize send, a %d byte message is refused too: %v", size, err)
			}
			break
		}
		expectCmd(3, argv, 2, "the message after the rejected one")
	case "badfd-then-normal":
		err := sa.SendCmd(5, []string{"doomed"}, nil, unixsocket.Msg{Fds: []int{987}}) // closed descriptor: sendmsg fails
		if err == nil {
			x.Failf("C19/framed/badfd-accepted", "a message with a closed descriptor was accepted")
		}
		argv := []string{"after-the-failed-one", big}
		err = sa.SendCmd(4, argv, nil, unixsocket.Msg{Fds: fds2})
		if err != nil {
			outcome += "s"
			if fits {
				x.Failf("C19/framed/later-message-affected/"+sc, "after a failed send, a %d byte message is refused: %v", size, err)
			}
			break
		}
		expectCmd(4, argv, 2, "the message after the failed one")
	case "undecodable-packet-then-normal":
		// a packet that is no message of the framed layer reaches the receiver (its decoding fails with bytes left over);
		// the failing receive must not cost the next, good message anything
		if err := a.SendMsg([]byte{1, 0, 3, 4, 5, 6}, unixsocket.Msg{}); err != nil {
			x.Failf("C19/harness", "raw send: %v", err)
			break
		}
		if _, _, _, m, err := sb.RecvCmd(); err == nil {
			x.Note("undecodable-packet", "was decoded as a command")
			for _, fd := range m.Fds {
				unix.Close(fd)
			}
		}
		argv := []string{"after-the-undecodable-one", big}
		err := sa.SendCmd(4, argv, nil, unixsocket.Msg{Fds: fds2})
		if err != nil {
			outcome += "s"
			if fits {
				x.Failf("C19/framed/later-message-affected/"+sc, "after an undecodable packet was received, a %d byte message is refused: %v", size, err)
			}
			break
		}
		expectCmd(4, argv, 2, "the message after the undecodable packet")
	case "reply-oversize-then-normal":
		err := sb.SendReply(strings.Repeat("e", 40<<10), nil, nil, unixsocket.Msg{})
		if err == nil {
			x.Failf("C19/framed/oversize-accepted", "a 40 KiB reply was accepted by the 32 KiB frame")
		}
		err = sb.SendReply("short", nil, nil, unixsocket.Msg{})
		if err != nil {
			x.Failf("C19/framed/later-message-affected/"+sc, "after a rejected oversize reply a short one is refused: %v", err)
			break
		}
		et, _, _, rm, err := sa.RecvReply()
		for _, fd := range rm.Fds {
			unix.Close(fd)
		}
		if err != nil || et != "short" {
			x.Failf("C19/framed/wrong-message/"+sc, "after a rejected oversize reply the next one arrived as %q (%v)", firstN(et, 20), err)
		}
		outcome += "d"
	}
	x.Distinct(fmt.Sprint(sc, size, outcome))
	x.Outcome("framed:" + sc + ":" + outcome)
}

func firstN(s string, n int) string {
	if len(s) > n {
		return s[:n]
	}
	return s
}

// c19limitSlots lowers the soft open-file limit of this process so that exactly k descriptor numbers are free below it
// and returns the function that restores it.
func c19limitSlots(k int) func() {
	var old unix.Rlimit
	unix.Getrlimit(unix.RLIMIT_NOFILE, &old)
	open := map[int]bool{} // probed without opening anything (a directory listing would itself occupy the lowest free number)
	for fd := 0; fd < 4096; fd++ {
		if _, err := unix.FcntlInt(uintptr(fd), unix.F_GETFD, 0); err == nil {
			open[fd] = true
		}
	}
	// l = the (k+1)-th free number: exactly k numbers below it are free
	free, l := 0, 0
	for ; ; l++ {
		if !open[l] {
			if free == k {
				break
			}
			free++
		}
	}
	unix.Setrlimit(unix.RLIMIT_NOFILE, &unix.Rlimit{Cur: uint64(l), Max: old.Max})
	return func() { unix.Setrlimit(unix.RLIMIT_NOFILE, &old) }
}
