package main

import (
	"context"
	"encoding/json"
	"fmt"
	"os"
	"path/filepath"
	"reflect"
	"sort"
	"syscall"
	"time"

	"github.com/criyle/go-sandbox/container"
	"github.com/criyle/go-sandbox/pkg/forkexec"
	"github.com/criyle/go-sandbox/runner"
	"golang.org/x/sys/unix"
	"verif/mc"
)

// C06 — the program's descriptor table is exactly the caller's list, nothing more.

type fdInfo struct {
	Fd      int    `json:"fd"`
	Dev     uint64 `json:"dev"`
	Ino     uint64 `json:"ino"`
	Type    int    `json:"type"`
	Fl      int    `json:"fl"`
	Cloexec int    `json:"cloexec"`
}

type report struct {
	Pid        int         `json:"pid"`
	Ppid       int         `json:"ppid"`
	Sid        int         `json:"sid"`
	Pgid       int         `json:"pgid"`
	UID        [3]int      `json:"uid"`
	GID        [3]int      `json:"gid"`
	Groups     []int       `json:"groups"`
	CapEff     string      `json:"cap_eff"`
	CapPrm     string      `json:"cap_prm"`
	CapInh     string      `json:"cap_inh"`
	CapAmb     string      `json:"cap_amb"`
	CapBnd     string      `json:"cap_bnd"`
	Securebits int         `json:"securebits"`
	NoNewPrivs int         `json:"no_new_privs"`
	Seccomp    int         `json:"seccomp"`
	Cwd        string      `json:"cwd"`
	Host       string      `json:"host"`
	Domain     string      `json:"domain"`
	Rlimits    [][2]uint64 `json:"rlimits"`
	Fds        []fdInfo    `json:"fds"`
}

func readReport(path string) (*report, error) {
	b, err := os.ReadFile(path)
	if err != nil {
		return nil, err
	}
	var r report
	if err := json.Unmarshal(b, &r); err != nil {
		return nil, fmt.Errorf("%v in %q", err, string(b))
	}
	return &r, nil
}

type ident struct{ dev, ino uint64 }

func fdIdent(fd int) (ident, bool) {
	var st unix.Stat_t
	if err := unix.Fstat(fd, &st); err != nil {
		return ident{}, false
	}
	return ident{uint64(st.Dev), uint64(st.Ino)}, true
}

// c06 layout of the worker's own descriptor table (built once per worker process).
type c06layout struct {
	low     []int // reserved low descriptors holding distinct temp files
	high    []int
	execHi  int
	srcDir  string
	files   map[int]string // fd → path of the temp file it holds
	exePath string
}

var c06L *c06layout

func fdFree(fd int) bool {
	_, err := unix.FcntlInt(uintptr(fd), unix.F_GETFD, 0)
	return err == unix.EBADF
}

func placeFile(path string, fd int, flags int) error {
	if !fdFree(fd) {
		return fmt.Errorf("fd %d is not free", fd)
	}
	t, err := unix.Open(path, flags|unix.O_CLOEXEC, 0644)
	if err != nil {
		return err
	}
	if t == fd {
		return nil
	}
	defer unix.Close(t)
	return unix.Dup3(t, fd, unix.O_CLOEXEC)
}

func c06setup() error {
	// everything this process holds becomes close-on-exec, so that "nothing more" is well defined
	ents, _ := os.ReadDir("/proc/self/fd")
	for _, e := range ents {
		var n int
		fmt.Sscan(e.Name(), &n)
		unix.CloseOnExec(n)
	}
	L := &c06layout{files: map[int]string{}, srcDir: tmpDir("c06src"), exePath: probe("report")}
	// descriptors 0 and 1 of this worker become two distinct files (the explorer talks over private descriptors), so that
	// list values 0, 1, 2 name three different open files
	for _, fd := range []int{0, 1} {
		p := filepath.Join(L.srcDir, fmt.Sprintf("std%d", fd))
		os.WriteFile(p, []byte(p), 0644)
		if t, err := unix.Open(p, unix.O_RDWR|unix.O_CLOEXEC, 0); err == nil {
			unix.Dup3(t, fd, unix.O_CLOEXEC)
			unix.Close(t)
		}
	}
	for fd := 3; fd <= 16; fd++ {
		if !fdFree(fd) {
			continue // owned by the Go runtime: never touched, never listed
		}
		p := filepath.Join(L.srcDir, fmt.Sprintf("s%d", fd))
		os.WriteFile(p, []byte(p), 0644)
		if err := placeFile(p, fd, unix.O_RDWR); err != nil {
			return err
		}
		L.low = append(L.low, fd)
		L.files[fd] = p
	}
	for _, fd := range []int{40, 41} {
		p := filepath.Join(L.srcDir, fmt.Sprintf("h%d", fd))
		os.WriteFile(p, []byte(p), 0644)
		if err := placeFile(p, fd, unix.O_RDWR); err != nil {
			return err
		}
		L.high = append(L.high, fd)
		L.files[fd] = p
	}
	L.execHi = 45
	if err := placeFile(L.exePath, 45, unix.O_RDONLY); err != nil {
		return err
	}
	if len(L.low) < 7 {
		tbl := ""
		ents, _ := os.ReadDir("/proc/self/fd")
		for _, e := range ents {
			l, _ := os.Readlink("/proc/self/fd/" + e.Name())
			tbl += e.Name() + "=" + l + " "
		}
		return fmt.Errorf("only %d low descriptors could be reserved: %s", len(L.low), tbl)
	}
	c06L = L
	return nil
}

const c06marker = ^uintptr(0)

func init() {
	registry["C06"] = func(tier string) *mc.Spec {
		maxLen := 3
		if tier == "thorough" {
			maxLen = 4
		}
		spec := &mc.Spec{
			Level: "exploration",
			Rule: "every descriptor list of length ≤ maxLen over {close-marker, caller fds 0,1,2, four reserved low fds, two high fds} × ExecFile ∈ {none, a low number, a high number, exactly the first scratch number the launcher will use} × " +
				"placement of the internal socketpair ∈ {two lowest reserved numbers freed so that it lands inside 0..n, just above the reserved block} × {vfork, non-vfork (sync callback)}; " +
				"each configuration is started twice from one Runner value; the program reports its whole descriptor table; plus container.Execve with Files/ExecFile lists; plus containers built while the building process holds one or two inheritable descriptors (every 1- and 2-subset of six numbers chosen for their position in numeric and in name order), programs run twice in each; plus 'concurrent launch': ten operations A (launches in every mode, a failing launch, a namespace-runner run, container build+destroy, host side of Execve and Open, memfd copy + pipe collector) run on a thread that is stopped with ptrace at EVERY system-call boundary, and at each boundary a complete launch B from another goroutine must produce a program with exactly its own descriptors (all interleavings of A with one atomic B). " +
				"non-trivial: the list is not the identity mapping 0..n-1; distinct = (list, exec, gap, vfork, observed table shape)",
			Bound:       map[string]any{"max_len": maxLen},
			Assumptions: []string{"identity of an open file = (st_dev, st_ino) seen by fstat on both sides", "all descriptors of the launching process are close-on-exec (set by the harness), so any extra descriptor in the program was put there by the library"},
			SplitDepth:  5,
			Workers:     4,
			Horizon:     20 * time.Second,
		}
		spec.Init = func() error {
			if os.Getenv("VERIF_WORKER") == "" && len(os.Args) < 4 {
				// the coordinator only enumerates the frontier (choices come before any action); it launches nothing
				c06L = &c06layout{low: []int{5, 8, 9, 10, 11, 12, 13, 14}, high: []int{40, 41}, execHi: 45, files: map[int]string{}}
				return nil
			}
			return c06setup()
		}
		spec.Fini = func() { c09pool.drop(); cleanupTmp() }
		spec.Body = func(x *mc.X) {
			switch x.Choose(6, "family") {
			case 5:
				c06stoppedWindow(x)
				return
			case 4:
				c06xConcurrent(x)
				return
			case 1:
				c06container(x)
				return
			case 2:
				c06long(x)
				return
			case 3:
				c06inherited(x)
				return
			}
			L := c06L
			gap := x.Choose(2, "gap")      // 0: socketpair lands above the reserved block; 1: the two lowest reserved numbers are freed for it
			execSel := x.Choose(4, "exec") // 3: the executable sits exactly on the first scratch number the launcher will use
			vfork := x.Choose(2, "nonvfork") == 0
			low := L.low
			var freed []int
			if gap == 1 {
				freed = []int{low[0], low[1]}
				low = low[2:]
			}
			execLow := low[len(low)-1] // the low number that carries the executable when execSel==1
			// value alphabet: quick and the longest thorough lists use the reduced alphabet
			n := x.Choose(maxLen+1, "len")
			nLow, nHigh := 1, 1
			if tier == "thorough" && n <= 3 {
				nLow, nHigh = 4, 2
			}
			values := []uintptr{c06marker, 0, 1, 2}
			for i, fd := range low {
				if i == nLow {
					break
				}
				values = append(values, uintptr(fd))
			}
			for i, fd := range L.high {
				if i == nHigh {
					break
				}
				values = append(values, uintptr(fd))
			}
			if execSel == 1 {
				values = append(values, uintptr(execLow)) // then names the executable's open file
			}
			list := make([]uintptr, n)
			for i := range list {
				list[i] = values[x.Choose(len(values), "fd")]
			}
			x.Note("family", "forkexec")
			x.Note("list", fmtList(list))
			x.OnHang("C06/launch-hangs", fmt.Sprintf("launch with list %s exec=%d gap=%d vfork=%v did not return within the horizon", fmtList(list), execSel, gap, vfork))
			x.Note("gap", gap)
			x.Note("exec", []string{"none", "low", "high", "first-scratch-number"}[execSel])
			x.Note("vfork", vfork)

			if x.Dry() {
				return
			}
			// shape the table
			for _, fd := range freed {
				unix.Close(fd)
			}
			if execSel == 1 {
				unix.Close(execLow)
				if err := placeFile(L.exePath, execLow, unix.O_RDONLY); err != nil {
					x.Failf("C06/harness", "place exec: %v", err)
				}
			}
			execScratch := 0
			if execSel == 3 {
				// the launcher's scratch numbers start above the list's length and above its largest entry
				execScratch = n
				for _, v := range list {
					if v != c06marker && int(v)+1 > execScratch {
						execScratch = int(v) + 1
					}
				}
				path, mine := L.files[execScratch]
				inList := false
				for _, v := range list {
					if v != c06marker && int(v) == execScratch {
						inList = true
					}
				}
				for _, fd := range freed {
					if fd == execScratch {
						mine = false
					}
				}
				if execScratch < 3 || inList || (!mine && !fdFree(execScratch)) {
					x.Outcome("n/a:first-scratch-number-not-available")
					for _, fd := range freed {
						placeFile(L.files[fd], fd, unix.O_RDWR)
					}
					return
				}
				if mine {
					unix.Close(execScratch) // one of the reserved test files: it gives its number to the executable for this run
				}
				if err := placeFile(L.exePath, execScratch, unix.O_RDONLY); err != nil {
					x.Failf("C06/harness", "place exec: %v", err)
				}
				defer func() {
					unix.Close(execScratch)
					if mine {
						placeFile(path, execScratch, unix.O_RDWR)
					}
				}()
			}
			defer func() {
				for _, fd := range freed {
					placeFile(L.files[fd], fd, unix.O_RDWR)
				}
				if execSel == 1 {
					unix.Close(execLow)
					placeFile(L.files[execLow], execLow, unix.O_RDWR)
				}
			}()
			// expected identities, taken before the launch
			exp := make([]*ident, n)
			for i, v := range list {
				if v == c06marker {
					continue
				}
				id, ok := fdIdent(int(v))
				if !ok {
					x.Failf("C06/harness", "source fd %d not open", v)
					return
				}
				exp[i] = &id
			}
			out := filepath.Join(tmpDir("c06out"), "r.json")
			defer os.RemoveAll(filepath.Dir(out))
			r := &forkexec.Runner{
				Args:  []string{L.exePath, "--outfile=" + out},
				Env:   []string{},
				Files: append([]uintptr{}, list...),
			}
			switch execSel {
			case 1:
				r.ExecFile = uintptr(execLow)
			case 2:
				r.ExecFile = uintptr(L.execHi)
			case 3:
				r.ExecFile = uintptr(execScratch)
			}
			if !vfork {
				r.SyncFunc = func(int) error { return nil }
			}
			before := snapshotRunner(r)
			identity := true
			for i, v := range list {
				if v != uintptr(i) {
					identity = false
				}
			}
			shape := ""
			for start := 1; start <= 2; start++ {
				os.Remove(out)
				pid, err := r.Start()
				if err != nil {
					x.Failf(fmt.Sprintf("C06/start%d-failed", start), "list %s exec=%d gap=%d vfork=%v: start %d failed: %v", fmtList(list), execSel, gap, vfork, start, err)
					break
				}
				var ws syscall.WaitStatus
				syscall.Wait4(pid, &ws, 0, nil)
				rep, err := readReport(out)
				if err != nil {
					x.Failf(fmt.Sprintf("C06/start%d-no-report", start), "list %s exec=%d gap=%d vfork=%v: start %d: program did not report (%v, wait status %#x)", fmtList(list), execSel, gap, vfork, start, err, ws)
					break
				}
				s := c06judge(x, rep, exp, n, fmt.Sprintf("list %s exec=%d gap=%d vfork=%v start %d", fmtList(list), execSel, gap, vfork, start), start)
				if start == 1 {
					shape = s
				} else if s != shape {
					x.Failf("C06/second-start-differs", "list %s exec=%d gap=%d vfork=%v: second start table %s, first %s", fmtList(list), execSel, gap, vfork, s, shape)
				}
				if !reflect.DeepEqual(before, snapshotRunner(r)) {
					x.Failf("C06/runner-modified", "list %s exec=%d gap=%d vfork=%v: Runner changed by Start: before %+v after %+v", fmtList(list), execSel, gap, vfork, before, snapshotRunner(r))
				}
			}
			if !identity {
				x.Distinct(fmt.Sprint(fmtList(list), execSel, gap, vfork, shape))
			}
			x.Outcome(fmt.Sprintf("len=%d:%s", n, shapeClass(shape)))
		}
		return spec
	}
}

type runnerSnap struct {
	Args, Env  []string
	ExecFile   uintptr
	Files      []uintptr
	WorkDir    string
	CloneFlags uintptr
	CgroupFd   uintptr
}

func snapshotRunner(r *forkexec.Runner) runnerSnap {
	return runnerSnap{append([]string{}, r.Args...), append([]string{}, r.Env...), r.ExecFile, append([]uintptr{}, r.Files...), r.WorkDir, r.CloneFlags, r.CgroupFd}
}

func fmtList(l []uintptr) string {
	s := "["
	for i, v := range l {
		if i > 0 {
			s += ","
		}
		if v == c06marker {
			s += "x"
		} else {
			s += fmt.Sprint(v)
		}
	}
	return s + "]"
}

func shapeClass(s string) string {
	if len(s) > 24 {
		return s[:24]
	}
	return s
}

// c06judge compares the program's table with the expectation and returns a canonical description of the table.
func c06judge(x *mc.X, rep *report, exp []*ident, n int, ctx string, start int) string {
	got := map[int]fdInfo{}
	for _, f := range rep.Fds {
		got[f.Fd] = f
	}
	desc := ""
	for i := 0; i < n; i++ {
		f, open := got[i]
		switch {
		case exp[i] == nil && open:
			x.Failf("C06/marker-slot-open", "%s: slot %d should be closed but is open", ctx, i)
			desc += "!"
		case exp[i] == nil:
			desc += "x"
		case !open:
			x.Failf("C06/slot-closed", "%s: slot %d is closed", ctx, i)
			desc += "-"
		case f.Dev != exp[i].dev || f.Ino != exp[i].ino:
			x.Failf("C06/wrong-file", "%s: slot %d refers to (%d,%d), the caller listed (%d,%d)", ctx, i, f.Dev, f.Ino, exp[i].dev, exp[i].ino)
			desc += "?"
		default:
			desc += "="
		}
	}
	var extra []int
	for fd := range got {
		if fd >= n {
			extra = append(extra, fd)
		}
	}
	sort.Ints(extra)
	if len(extra) > 0 {
		x.Failf("C06/extra-descriptor", "%s: descriptors %v are open in the program beyond the %d listed", ctx, extra, n)
		desc += fmt.Sprintf("+%d", len(extra))
	}
	return desc
}

// c06container: Files/ExecFile through container.Execve; the program must see exactly the list.
func c06container(x *mc.X) {
	L := c06L
	pool := []int{L.low[0], L.low[1], L.high[0], L.high[1]}
	n := x.Choose(4, "len")
	withExec := x.Choose(2, "execfile") == 1
	syncAfter := x.Choose(2, "syncafter") == 1
	// the request also names a cgroup directory the program is to be born in (a second descriptor that travels at the head
	// of the list and must be taken off it, like the executable)
	withCgroup := x.Bool("cgroup-descriptor")
	list := make([]uintptr, n)
	exp := make([]*ident, n)
	for i := range list {
		fd := pool[x.Choose(len(pool), "fd")]
		list[i] = uintptr(fd)
		id, _ := fdIdent(fd)
		exp[i] = &id
	}
	x.Note("family", "container")
	x.Note("list", fmtList(list))
	x.Note("execfile", withExec)
	x.Note("syncafter", syncAfter)
	if x.Dry() {
		return
	}
	c, err := c09pool.get()
	if err != nil {
		x.Failf("C06/harness", "container: %v", err)
		return
	}
	p := execveParam([]string{"/probe/report", "--outfile=/w/r.json"})
	p.Files = list
	p.SyncAfterExec = syncAfter
	if withExec {
		p.ExecFile = uintptr(L.execHi)
	}
	if withCgroup {
		cg, err := os.Open("/sys/fs/cgroup/unified")
		if err != nil {
			x.Outcome("n/a:no-cgroup2-hierarchy")
			return
		}
		defer cg.Close()
		p.CgroupFD = cg.Fd()
	}
	c.Delete("/w/r.json")
	ctx, cancel := context.WithTimeout(context.Background(), 30*time.Second)
	res := c.Execve(ctx, p)
	cancel()
	if res.Status != runner.StatusNormal {
		c09pool.drop()
		x.Failf("C06/container-run-failed", "list %s exec=%v cgroup=%v: %v %s", fmtList(list), withExec, withCgroup, res.Status, res.Error)
		return
	}
	fr, err := c.Open([]container.OpenCmd{{Path: "/w/r.json", Flag: os.O_RDONLY}})
	if err != nil || len(fr) != 1 || fr[0].Err != nil {
		x.Failf("C06/container-no-report", "cannot open report: %v %v", err, fr)
		return
	}
	defer fr[0].File.Close()
	var rep report
	if err := json.NewDecoder(fr[0].File).Decode(&rep); err != nil {
		x.Failf("C06/container-no-report", "bad report: %v", err)
		return
	}
	shape := c06judge(x, &rep, exp, n, fmt.Sprintf("container list %s exec=%v cgroup-descriptor=%v syncafter=%v", fmtList(list), withExec, withCgroup, syncAfter), 1)
	x.Distinct(fmt.Sprint("c", fmtList(list), withExec, withCgroup, syncAfter, shape))
	x.Outcome(fmt.Sprintf("container:len=%d:%s", n, shapeClass(shape)))
}

// c06long: long lists whose entries all need a scratch duplicate (Files[i] < i), sized so that the scratch numbers walk
// exactly onto the internal socketpair (which then is not relocated because it already lies above the list).
func c06long(x *mc.X) {
	shape := x.Pick("shape", "all-zero", "descending", "zero-then-descending")
	delta := x.Choose(4, "socket-offset") // the child's socket end sits delta above the first scratch number
	vfork := x.Choose(2, "nonvfork") == 0
	withExec := x.Choose(2, "execfile") == 1
	x.Note("family", "long-list")
	x.OnHang("C06/launch-hangs", "launch of a long list did not return within the horizon")
	if x.Dry() {
		return
	}
	L := c06L
	_, p1 := lowestFree2()
	n := p1 - 1 - delta // scratch base = max(n, max fd)+1 = n+1; the socket end p1 = n+1+delta
	if n < 4 {
		x.Outcome("n/a")
		return
	}
	list := make([]uintptr, n)
	for i := range list {
		switch shape {
		case "all-zero":
			list[i] = 0
		case "descending":
			list[i] = uintptr((n - 1 - i) % 3)
		case "zero-then-descending":
			list[i] = uintptr(i % 3)
			if i >= 3 {
				list[i] = uintptr(2 - i%3)
			}
		}
	}
	x.Note("list", fmt.Sprintf("%d entries, %s, socket expected at %d", n, shape, p1))
	exp := make([]*ident, n)
	for i, v := range list {
		id, _ := fdIdent(int(v))
		exp[i] = &id
	}
	out := filepath.Join(tmpDir("c06out"), "r.json")
	defer os.RemoveAll(filepath.Dir(out))
	r := &forkexec.Runner{Args: []string{L.exePath, "--outfile=" + out}, Env: []string{}, Files: append([]uintptr{}, list...)}
	if withExec {
		r.ExecFile = uintptr(L.execHi)
	}
	if !vfork {
		r.SyncFunc = func(int) error { return nil }
	}
	ctx := fmt.Sprintf("long list (%d × %s, socket offset %d, vfork %v, execfile %v)", n, shape, delta, vfork, withExec)
	pid, err := r.Start()
	if err != nil {
		x.Failf("C06/long/start-failed", "%s: %v", ctx, err)
		return
	}
	var ws syscall.WaitStatus
	syscall.Wait4(pid, &ws, 0, nil)
	rep, err := readReport(out)
	if err != nil {
		x.Failf("C06/long/no-report", "%s: the program did not report (%v, wait status %#x)", ctx, err, uint32(ws))
		return
	}
	shapeS := c06judge(x, rep, exp, n, ctx, 1)
	x.Distinct(fmt.Sprint("long", shape, delta, vfork, withExec, shapeS))
	x.Outcome("long:" + shapeClass(shapeS))
}

// c06inherited: the process that builds the container holds inheritable descriptors (a careless parent, a dup); the
// container init inherits them, and the programs it launches must still see exactly their list. Numbers are chosen by
// their place in numeric order and in the order of their decimal names ("10" < "9").
func c06inherited(x *mc.X) {
	L := c06L
	cand := []int{}
	for _, fd := range []int{8, 9, 10, 13, 14, 40} {
		cand = append(cand, fd)
	}
	a := x.Choose(len(cand), "stray-a")
	b := x.Choose(len(cand)+1, "stray-b") // len(cand): none
	n := []int{0, 3}[x.Choose(2, "len")]
	if x.Dry() {
		return
	}
	if b < len(cand) && b <= a {
		x.Outcome("n/a:unordered-pair")
		return
	}
	strays := []int{cand[a]}
	if b < len(cand) {
		strays = append(strays, cand[b])
	}
	for _, fd := range strays {
		if _, ok := L.files[fd]; !ok {
			x.Outcome("n/a:number-owned-by-runtime")
			return
		}
	}
	x.Note("family", "container-inherited")
	x.Note("inheritable-in-builder", strays)
	for _, fd := range strays {
		unix.FcntlInt(uintptr(fd), unix.F_SETFD, 0)
	}
	c, err := newContainer(nil)
	for _, fd := range strays {
		unix.FcntlInt(uintptr(fd), unix.F_SETFD, unix.FD_CLOEXEC)
	}
	if err != nil {
		x.Failf("C06/harness", "container: %v", err)
		return
	}
	defer c.Destroy()
	list := make([]uintptr, n)
	exp := make([]*ident, n)
	for i := range list {
		list[i] = uintptr(i)
		id, _ := fdIdent(i)
		exp[i] = &id
	}
	shapes := ""
	for round := 0; round < 2; round++ {
		p := execveParam([]string{"/probe/report", "--outfile=/w/r.json"})
		p.Files = list
		c.Delete("/w/r.json")
		ctx, cancel := context.WithTimeout(context.Background(), 30*time.Second)
		res := c.Execve(ctx, p)
		cancel()
		if res.Status != runner.StatusNormal {
			x.Failf("C06/container-run-failed", "builder held %v inheritable: %v %s", strays, res.Status, res.Error)
			return
		}
		fr, err := c.Open([]container.OpenCmd{{Path: "/w/r.json", Flag: os.O_RDONLY}})
		if err != nil || len(fr) != 1 || fr[0].Err != nil {
			x.Failf("C06/container-no-report", "cannot open report: %v %v", err, fr)
			return
		}
		var rep report
		err = json.NewDecoder(fr[0].File).Decode(&rep)
		fr[0].File.Close()
		if err != nil {
			x.Failf("C06/container-no-report", "bad report: %v", err)
			return
		}
		shapes += c06judge(x, &rep, exp, n, fmt.Sprintf("container built while descriptors %v were inheritable, list %s, run %d", strays, fmtList(list), round+1), 1) + "/"
	}
	x.Distinct(fmt.Sprint("ci", strays, n, shapes))
	x.Outcome(fmt.Sprintf("container-inherited:len=%d:%s", n, shapeClass(shapes)))
}
