package main

import (
	"encoding/json"
	"fmt"
	"os"
	"os/exec"
	"path/filepath"
	"reflect"
	"runtime"
	"sort"
	"strconv"
	"strings"
	"sync"
	"syscall"
	"time"

	"github.com/criyle/go-sandbox/pkg/cgroup"
	"verif/mc"
)

// C20 — cgroup handles control exactly their own group; usage is returned in documented units.
// pkg/cgroup is instrumented at build time through an overlay (every file-system call is a scheduling point).

var c20ctl = []string{"cpu", "memory", "pids"} // controllers used on the real v1 hierarchy

// c20v2: this process runs inside a private mount namespace in which the kernel's cgroup2 hierarchy is bind-mounted on
// /sys/fs/cgroup, so that the package detects (at init) and uses the v2 implementation
var c20v2 = os.Getenv("C20_V2") == "1"

// hierarchy roots ("" = the single v2 hierarchy)
func c20roots() []string {
	if c20v2 {
		return []string{""}
	}
	return []string{"cpu", "cpuacct", "cpuset", "memory", "pids"}
}

func c20prefix() string { return fmt.Sprintf("verif-%d", os.Getpid()) }

func c20dirs(rel string) []string {
	var out []string
	for _, c := range c20ctl {
		out = append(out, filepath.Join("/sys/fs/cgroup", c, rel))
	}
	return out
}

func dirExists(p string) bool { fi, err := os.Stat(p); return err == nil && fi.IsDir() }

// c20cleanup removes every group below this process's prefix (children first).
func c20cleanup() {
	for _, ctl := range c20roots() {
		root := filepath.Join("/sys/fs/cgroup", ctl, c20prefix())
		var dirs []string
		filepath.Walk(root, func(p string, fi os.FileInfo, err error) error {
			if err == nil && fi.IsDir() {
				dirs = append(dirs, p)
			}
			return nil
		})
		sort.Sort(sort.Reverse(sort.StringSlice(dirs)))
		for _, d := range dirs {
			// move member processes back to the root first
			if b, err := os.ReadFile(filepath.Join(d, "cgroup.procs")); err == nil {
				for _, pid := range strings.Fields(string(b)) {
					os.WriteFile(filepath.Join("/sys/fs/cgroup", ctl, "cgroup.procs"), []byte(pid), 0644)
				}
			}
			syscall.Rmdir(d)
		}
	}
}

type c20handle struct {
	cg      cgroup.Cgroup
	rel     string          // path below the hierarchy roots
	created map[string]bool // directories that did not exist before the creating call
	dead    bool
}

// c20memberDir returns the directory (in the hierarchy that dir belongs to) of the group pid is a member of.
func c20memberDir(pid int, dir string) string {
	m := c20membership(pid)
	if c20v2 {
		return filepath.Join("/sys/fs/cgroup", m[""])
	}
	f := strings.SplitN(strings.TrimPrefix(dir, "/sys/fs/cgroup/"), "/", 2)
	return filepath.Join("/sys/fs/cgroup", f[0], m[f[0]])
}

// threads of the process that are not members of the group directory dir
func c20threadsOutside(pid int, dir string) []int {
	var out []int
	ents, _ := os.ReadDir(fmt.Sprintf("/proc/%d/task", pid))
	for _, e := range ents {
		tid, _ := strconv.Atoi(e.Name())
		m := c20membershipOf(fmt.Sprintf("/proc/%d/task/%d/cgroup", pid, tid))
		got := ""
		if c20v2 {
			got = filepath.Join("/sys/fs/cgroup", m[""])
		} else {
			f := strings.SplitN(strings.TrimPrefix(dir, "/sys/fs/cgroup/"), "/", 2)
			got = filepath.Join("/sys/fs/cgroup", f[0], m[f[0]])
		}
		if got != dir {
			out = append(out, tid)
		}
	}
	return out
}

func c20membership(pid int) map[string]string {
	return c20membershipOf(fmt.Sprintf("/proc/%d/cgroup", pid))
}

func c20membershipOf(file string) map[string]string {
	out := map[string]string{}
	b, _ := os.ReadFile(file)
	for _, l := range strings.Split(string(b), "\n") {
		f := strings.SplitN(l, ":", 3)
		if len(f) == 3 {
			for _, c := range strings.Split(f[1], ",") {
				out[c] = f[2]
			}
		}
	}
	return out
}

func init() {
	registry["C20"] = func(tier string) *mc.Spec {
		maxOps := 3
		if tier == "thorough" {
			maxOps = 4
		}
		spec := &mc.Spec{
			Level: "exploration",
			Rule: "family 0 (real cgroup v1 hierarchy): every operation sequence of ≤ maxOps over {New(prefix) with controller sets {memory} / {cpu,memory,pids}, h.New(child), h.Random(pattern) with the random source scripted over a 2-value domain, h.Nest(name) on a group that holds a helper process, OpenExisting, AddProc(helper), AddProc(kernel thread, helper) — a nil result must mean every given process was moved —, SetMemoryLimit, SetProcLimit, SetCPUBandwidth, Destroy(any live handle)}; state = directories below the test prefix, the helper's membership, the limit files; reference tree with a created-by flag per handle. " +
				"family 3 (real cgroup v2 hierarchy, bind-mounted on /sys/fs/cgroup in a private mount namespace of a helper process; no controllers available): the same sequences one operation shorter, without limit operations. family 1 (schedules): two creators working on the same name (h.New+h.New, h.Random+h.Random with the same scripted name, h.New+Destroy of the other's group, top-level New+New of one prefix, top-level New + New-then-Destroy), all interleavings of their instrumented file-system calls; family 4: the same three scenarios with all their interleavings on the real cgroup v2 hierarchy (enumerated inside the helper's mount namespace). family 2 (statistics files): every reading function on fake group directories whose files hold {0, 1, 2^32, 2^53, extra fields before / after, no trailing newline, missing file}, v1 and v2 layouts. " +
				"non-trivial: the sequence creates at least two handles or destroys one; distinct = (sequence or schedule, resulting tree)",
			Bound:       map[string]any{"max_ops": maxOps, "v2_scope": "cgroup v2 controller files (memory.max, pids.max, memory.peak, pids.peak) cannot be exercised against this kernel (controllers are bound to v1); the v2 reading and writing functions are checked on fake directories only"},
			Assumptions: []string{"the overlay instrumentation only inserts calls before file-system operations and a seam in nextRandom"},
			SplitDepth:  2,
			Workers:     4,
			Horizon:     60 * time.Second,
		}
		c20tier = tier
		spec.Init = func() error { devnull(); c20cleanup(); return nil }
		spec.Fini = func() { c20cleanup(); cleanupTmp() }
		spec.Body = func(x *mc.X) {
			v2ops := maxOps - 1 // each v2 sequence costs a helper process in its own mount namespace
			if c20v2 {
				// replayed inside the v2 mount namespace: the family choice is still consumed
				x.Choose(7, "family")
				c20sequence(x, v2ops)
				return
			}
			switch x.Choose(7, "family") {
			case 6:
				c20twoHandles(x)
			case 5:
				c20many(x)
			case 4:
				c20schedOnV2(x)
			case 3:
				c20onV2(x, v2ops)
			case 0:
				c20sequence(x, maxOps)
			case 1:
				c20schedules(x)
			case 2:
				c20stats(x)
			}
		}
		return spec
	}
}

type c20step struct{ op, h, rnd int }

var c20opNames = []string{"New(prefix,{memory})", "New(prefix,{cpu,cpuset,memory,pids})", "h.New(child)", "h.Random(r*)", "h.Nest(n)", "OpenExisting(prefix)", "AddProc(helper)", "SetMemoryLimit", "SetProcLimit", "SetCPUBandwidth", "Destroy", "h.New(planted) [sub-group pre-existing under the memory hierarchy only]", "New(prefix,{memory}) that must fail [v2: controller cannot be enabled; v1: final name with a newline below the prefix]", "AddProc(kernel thread 2, helper) [the kernel refuses the first pid]"}

// c20sequenceChoices makes the choices of one operation sequence; ok=false: the sequence is not well formed
func c20sequenceChoices(x *mc.X, maxOps int) (steps []c20step, ok bool) {
	n := 1 + x.Choose(maxOps, "len")
	nh := 0
	for i := 0; i < n; i++ {
		op := x.Choose(len(c20opNames), "op")
		s := c20step{op: op}
		if op >= 2 && op != 5 && op != 12 {
			if nh == 0 {
				return nil, false
			}
			s.h = x.Choose(nh, "handle")
		}
		if op == 3 {
			s.rnd = x.Choose(2, "random-value")
		}
		if op <= 5 || op == 11 || op == 12 {
			nh++
		}
		steps = append(steps, s)
	}
	return steps, true
}

func c20sequence(x *mc.X, maxOps int) {
	opNames := []string{"New(prefix,{memory})", "New(prefix,{cpu,cpuset,memory,pids})", "h.New(child)", "h.Random(r*)", "h.Nest(n)", "OpenExisting(prefix)", "AddProc(helper)", "SetMemoryLimit", "SetProcLimit", "SetCPUBandwidth", "Destroy", "h.New(planted) [sub-group pre-existing under the memory hierarchy only]", "New(prefix,{memory}) that must fail [v2: controller cannot be enabled; v1: final name with a newline below the prefix]", "AddProc(kernel thread 2, helper) [the kernel refuses the first pid]"}
	steps, ok := c20sequenceChoices(x, maxOps)
	if !ok {
		x.Outcome("n/a:no-handle-yet")
		return
	}
	var desc []string
	for _, s := range steps {
		d := opNames[s.op]
		if s.op >= 2 && s.op != 5 && s.op != 12 {
			d += fmt.Sprintf("[h%d]", s.h)
		}
		if s.op == 3 {
			d += fmt.Sprintf("(random=%d)", s.rnd)
		}
		desc = append(desc, d)
	}
	x.Note("sequence", desc)
	if x.Dry() {
		return
	}
	c20cleanup()
	defer c20cleanup()
	prefix := c20prefix() + "/g"
	// the process that is moved around has several threads: "adding a pid really moves that process" means all of it
	helper := exec.Command(probe("threads"), "3")
	helper.SysProcAttr = &syscall.SysProcAttr{Setsid: true}
	hout, _ := helper.StdoutPipe()
	if err := helper.Start(); err != nil {
		x.Failf("C20/harness", "%v", err)
		return
	}
	hout.Read(make([]byte, 8)) // "ready": the threads exist
	defer func() { helper.Process.Kill(); helper.Wait() }()
	var handles []*c20handle
	ctx := func(i int) string { return fmt.Sprintf("sequence %v, step %d", desc, i) }
	creatorOf := map[string]int{} // directory → index of the handle whose call created it
	add := func(i int, cg cgroup.Cgroup, rel string, before map[string]bool, err error) {
		h := &c20handle{cg: cg, rel: rel, created: map[string]bool{}}
		if err == nil && (cg == nil || reflect.ValueOf(cg).IsNil()) {
			x.Failf("C20/seq/nil-handle-without-error", "%s: a nil handle was returned together with a nil error", ctx(i))
		}
		if err != nil || cg == nil || reflect.ValueOf(cg).IsNil() {
			h.dead = true
			handles = append(handles, h)
			return
		}
		paths := cgroup.VerifPaths(cg)
		for _, p := range paths {
			if !dirExists(p) {
				x.Failf("C20/seq/handle-without-directory", "%s: the returned handle has no directory at %s", ctx(i), p)
			}
			if !before[p] {
				h.created[p] = true
				if prev, ok := creatorOf[p]; ok {
					x.Failf("C20/seq/two-creators", "%s: directory %s counted as created by handle %d and again now", ctx(i), p, prev)
				}
				creatorOf[p] = len(handles)
			}
		}
		if !cg.Existing() {
			// a handle that says it created its group must not sit on a directory that was there before
			for _, p := range paths {
				if before[p] && len(paths) == 1 {
					x.Failf("C20/seq/not-existing-but-preexisting", "%s: handle reports Existing()==false but %s existed before the call", ctx(i), p)
				}
			}
		}
		handles = append(handles, h)
	}
	snapshot := func() map[string]bool {
		m := map[string]bool{}
		for _, ctl := range c20roots() {
			filepath.Walk(filepath.Join("/sys/fs/cgroup", ctl, c20prefix()), func(p string, fi os.FileInfo, err error) error {
				if err == nil && fi.IsDir() {
					m[p] = true
				}
				return nil
			})
		}
		return m
	}
	randVals := []string{"7", "8"}
	// whatever the operation and whether or not it succeeds: no group that existed before it may disappear, except the
	// group of the handle being destroyed
	var prevBefore map[string]bool
	var prevMayRemove []string
	checkRemoved := func(i int, before, after map[string]bool, mayRemove []string) {
		for p := range before {
			if after[p] {
				continue
			}
			ok := false
			for _, m := range mayRemove {
				if m == p {
					ok = true
				}
			}
			if !ok {
				x.Failf("C20/seq/operation-removed-existing-group", "%s: %s existed before the operation and is gone after it", ctx(i), p)
			}
		}
	}
	for i, s := range steps {
		before := snapshot()
		checkRemoved(i-1, prevBefore, before, prevMayRemove)
		var mayRemove []string // directories this step is entitled to remove
		if s.op == 10 && !handles[s.h].dead {
			mayRemove = cgroup.VerifPaths(handles[s.h].cg)
		}
		prevBefore, prevMayRemove = before, mayRemove
		switch s.op {
		case 12:
			var cg cgroup.Cgroup
			var err error
			if c20v2 {
				cg, err = cgroup.New(prefix, &cgroup.Controllers{Memory: true})
			} else {
				cg, err = cgroup.New(prefix+"/bad\nname", &cgroup.Controllers{Memory: true})
			}
			if err == nil {
				x.Failf("C20/harness", "%s: the New that was built to fail succeeded", ctx(i))
			}
			add(i, cg, prefix, before, err)
		case 0, 1:
			ct := &cgroup.Controllers{Memory: true}
			if s.op == 1 {
				ct = &cgroup.Controllers{CPU: true, CPUSet: true, Memory: true, Pids: true}
			}
			if c20v2 {
				ct = &cgroup.Controllers{} // no controller can be enabled in this kernel's v2 hierarchy
			}
			cg, err := cgroup.New(prefix, ct)
			add(i, cg, prefix, before, err)
		case 5:
			oct := &cgroup.Controllers{Memory: true}
			if c20v2 {
				oct = &cgroup.Controllers{}
			}
			cg, err := cgroup.OpenExisting(prefix, oct)
			add(i, cg, prefix, before, err)
			if err == nil && cg != nil && !reflect.ValueOf(cg).IsNil() && !cg.Existing() {
				x.Failf("C20/seq/openexisting-not-existing", "%s: OpenExisting returned a handle with Existing()==false", ctx(i))
			}
		case 11:
			parent := handles[s.h]
			if parent.dead {
				handles = append(handles, &c20handle{dead: true})
				continue
			}
			// somebody else's sub-group exists under one hierarchy only
			planted := filepath.Join("/sys/fs/cgroup", map[bool]string{true: "", false: "memory"}[c20v2], parent.rel, "planted")
			os.MkdirAll(planted, 0755)
			before = snapshot()
			cg, err := parent.cg.New("planted")
			add(i, cg, parent.rel+"/planted", before, err)
		case 2, 3, 4:
			parent := handles[s.h]
			if parent.dead {
				handles = append(handles, &c20handle{dead: true})
				continue
			}
			var cg cgroup.Cgroup
			var err error
			rel := ""
			switch s.op {
			case 2:
				cg, err = parent.cg.New("child")
				rel = parent.rel + "/child"
			case 3:
				calls := 0
				cgroup.VerifRandom = func() string {
					calls++
					if calls == 1 {
						return randVals[s.rnd]
					}
					return randVals[1-s.rnd] + strconv.Itoa(calls) // later draws differ, so a retry can succeed
				}
				cg, err = parent.cg.Random("r*")
				cgroup.VerifRandom = nil
				if err == nil {
					ps := cgroup.VerifPaths(cg)
					if len(ps) > 0 {
						rel = parent.rel + "/" + filepath.Base(ps[0])
						for _, p := range ps {
							if before[p] {
								x.Failf("C20/seq/random-returns-existing-group", "%s: Random returned the group %s, which existed before the call (Existing()=%v)", ctx(i), p, cg.Existing())
							}
						}
					}
				}
			case 4:
				// Nest moves the processes of the parent group into the new child: put the helper into the parent first
				inParent := parent.cg.AddProc(helper.Process.Pid) == nil
				cg, err = parent.cg.Nest("n")
				rel = parent.rel + "/n"
				// (a parent group that another handle — its creator — has destroyed meanwhile holds no process: nothing to move)
				if err == nil && inParent {
					for _, hp := range cgroup.VerifPaths(cg) {
						if got := c20memberDir(helper.Process.Pid, hp); got != hp {
							x.Failf("C20/seq/nest-did-not-move", "%s: after Nest the helper is in %s, expected %s", ctx(i), got, hp)
						}
					}
				}
			}
			add(i, cg, rel, before, err)
		case 6:
			h := handles[s.h]
			if h.dead {
				continue
			}
			other := exec.Command("/bin/sleep", "1000")
			other.Start()
			beforeOther := c20membership(other.Process.Pid)
			groupThere := true
			for _, hp := range cgroup.VerifPaths(h.cg) {
				if !dirExists(hp) {
					groupThere = false // removed by the Destroy of the handle that created it: this handle stands for nothing now
				}
			}
			err := h.cg.AddProc(helper.Process.Pid)
			if err != nil && groupThere {
				// a group this handle stands for accepts a live process (a cpuset group, for one, only once its cpus/mems were filled in)
				x.Failf("C20/seq/addproc-failed", "%s: AddProc of a live process failed: %v (membership now %v)", ctx(i), err, c20membership(helper.Process.Pid))
			}
			if err == nil {
				for _, hp := range cgroup.VerifPaths(h.cg) {
					if got := c20memberDir(helper.Process.Pid, hp); got != hp {
						x.Failf("C20/seq/addproc-not-moved", "%s: AddProc succeeded but the process is in %s, not in %s", ctx(i), got, hp)
					} else if out := c20threadsOutside(helper.Process.Pid, hp); len(out) > 0 {
						x.Failf("C20/seq/addproc-moved-one-thread-only", "%s: AddProc succeeded, the thread-group leader is in %s but threads %v of the process are not", ctx(i), hp, out)
					}
				}
				if fmt.Sprint(c20membership(other.Process.Pid)) != fmt.Sprint(beforeOther) {
					x.Failf("C20/seq/addproc-moved-another", "%s: AddProc moved a process it was not given", ctx(i))
				}
			}
			other.Process.Kill()
			other.Wait()
		case 7, 8, 9:
			h := handles[s.h]
			if h.dead || c20v2 {
				continue // v2 limit files do not exist without controllers (covered on fake directories)
			}
			var err error
			var file, want string
			switch s.op {
			case 7:
				err = h.cg.SetMemoryLimit(64 << 20)
				file, want = "memory/"+h.rel+"/memory.limit_in_bytes", strconv.Itoa(64<<20)
			case 8:
				err = h.cg.SetProcLimit(17)
				file, want = "pids/"+h.rel+"/pids.max", "17"
			case 9:
				err = h.cg.SetCPUBandwidth(50000, 100000)
				file, want = "cpu/"+h.rel+"/cpu.cfs_quota_us", "50000"
			}
			has := false
			for _, hp := range cgroup.VerifPaths(h.cg) {
				if hp == filepath.Dir("/sys/fs/cgroup/"+file) {
					has = true
				}
			}
			b, rerr := os.ReadFile("/sys/fs/cgroup/" + file)
			if has && err == nil && rerr == nil && strings.TrimSpace(string(b)) != want {
				x.Failf("C20/seq/limit-not-in-force", "%s: limit file %s holds %q after a successful set, expected %s", ctx(i), file, strings.TrimSpace(string(b)), want)
			}
		case 13:
			h := handles[s.h]
			if h.dead {
				continue
			}
			groupThere := true
			for _, hp := range cgroup.VerifPaths(h.cg) {
				if !dirExists(hp) {
					groupThere = false
				}
			}
			// several pids in one call, the kernel refuses one that is not the last (kthreadd cannot be moved): a nil
			// result says every process that was given is in the group now
			err := h.cg.AddProc(2, helper.Process.Pid)
			if err == nil && groupThere {
				for _, hp := range cgroup.VerifPaths(h.cg) {
					if got := c20memberDir(2, hp); got != hp {
						x.Failf("C20/seq/addproc-nil-but-a-process-not-moved", "%s: AddProc(2, helper) returned nil but process 2 is in %s, not in %s", ctx(i), got, hp)
					}
				}
			}
		case 10:
			h := handles[s.h]
			if h.dead {
				continue
			}
			// get the helper out of the way so that the group can be removed at all
			for _, ctl := range c20roots() {
				os.WriteFile(filepath.Join("/sys/fs/cgroup", ctl, "cgroup.procs"), []byte(strconv.Itoa(helper.Process.Pid)), 0644)
			}
			paths := cgroup.VerifPaths(h.cg)
			err := h.cg.Destroy()
			h.dead = true
			for _, p := range paths {
				if !dirExists(p) {
					delete(creatorOf, p)
				}
				switch {
				case !h.created[p] && before[p] && !dirExists(p):
					x.Failf("C20/seq/destroy-removed-preexisting", "%s: Destroy removed %s, which existed before this handle was made (Existing()=%v, err=%v)", ctx(i), p, h.cg.Existing(), err)
				case h.created[p] && !h.cg.Existing() && err == nil && dirExists(p):
					x.Failf("C20/seq/destroy-left-own-group", "%s: Destroy returned nil but %s, created by this handle, is still there", ctx(i), p)
				}
			}
		}
	}
	x.Count(int64(len(steps)))
	tree := snapshot()
	checkRemoved(len(steps)-1, prevBefore, tree, prevMayRemove)
	var dirs []string
	for p := range tree {
		dirs = append(dirs, strings.TrimPrefix(p, "/sys/fs/cgroup/"))
	}
	sort.Strings(dirs)
	if len(handles) >= 2 || strings.Contains(strings.Join(desc, " "), "Destroy") {
		x.Distinct(fmt.Sprint(desc, len(dirs)))
	}
	x.Outcome(fmt.Sprintf("seq:handles=%d:dirs-left=%d", len(handles), len(dirs)))
}

// c20onV2 makes the same choices as the v1 sequence family and replays that vector in a helper process that lives in a
// private mount namespace with the cgroup2 hierarchy bind-mounted on /sys/fs/cgroup.
func c20onV2(x *mc.X, maxOps int) {
	dry := &mc.X{}
	_ = dry
	// consume the choices exactly as c20sequence does (without acting), then hand the vector over
	c20sequenceChoices(x, maxOps)
	if x.Dry() {
		return
	}
	dir := tmpDir("c20v2")
	defer os.RemoveAll(dir)
	vec, _ := json.Marshal(map[string]any{"choices": x.Choices})
	vf := filepath.Join(dir, "vector.json")
	os.WriteFile(vf, vec, 0644)
	self, _ := os.Executable()
	cmd := exec.Command("unshare", "--mount", "--propagation", "private", "sh", "-c",
		"mount --bind /sys/fs/cgroup/unified /sys/fs/cgroup && exec \"$0\" C20 "+c20tier+" --replay \"$1\"", self, vf)
	cmd.Env = append(os.Environ(), "C20_V2=1")
	out, err := cmd.Output()
	var rep struct {
		Status string `json:"status"`
		Fails  []struct {
			Key  string `json:"key"`
			What string `json:"what"`
		} `json:"fails"`
		Outcome string `json:"outcome"`
	}
	if jerr := json.Unmarshal(out, &rep); jerr != nil {
		x.Failf("C20/v2/harness", "replay in the v2 namespace failed: %v %v %.300q", err, jerr, string(out))
		return
	}
	for _, f := range rep.Fails {
		x.Failf(strings.Replace(f.Key, "C20/seq/", "C20/v2seq/", 1), "on the cgroup v2 hierarchy: %s", f.What)
	}
	x.Distinct("v2" + fmt.Sprint(x.Choices) + rep.Outcome)
	x.Outcome("v2:" + rep.Outcome)
}

var c20tier = "quick"

// c20schedOnV2: the schedule family (two creators, every interleaving of their instrumented file-system calls) on the
// real cgroup v2 hierarchy. The helper process in the v2 mount namespace enumerates all schedules of one scenario itself
// (the schedule tree is only known while running) and reports how many it executed and every failure it saw.
func c20schedOnV2(x *mc.X) {
	scen := x.Choose(len(c20schedScenarios), "scenario")
	x.Note("family", "schedules on the cgroup v2 hierarchy")
	x.Note("scenario-index", scen)
	if x.Dry() {
		return
	}
	x.NeedsTime(15 * time.Minute) // one execution = a whole schedule search in the helper (thousands of schedules)
	self, _ := os.Executable()
	cmd := exec.Command("unshare", "--mount", "--propagation", "private", "sh", "-c",
		"mount --bind /sys/fs/cgroup/unified /sys/fs/cgroup && exec \"$0\" c20v2sched \"$1\"", self, fmt.Sprint(scen))
	cmd.Env = append(os.Environ(), "C20_V2=1")
	cmd.Stderr = os.Stderr
	out, err := cmd.Output()
	var rep struct {
		Schedules int64          `json:"schedules"`
		Steps     int64          `json:"steps"`
		Outcomes  map[string]int `json:"outcomes"`
		Fails     []struct {
			Key, What string
			Choices   []int
		} `json:"fails"`
	}
	lines := strings.Split(strings.TrimSpace(string(out)), "\n")
	if jerr := json.Unmarshal([]byte(lines[len(lines)-1]), &rep); jerr != nil || rep.Schedules == 0 {
		x.Failf("C20/v2sched/harness", "schedule search in the v2 namespace failed: %v %v %.300q", err, jerr, string(out))
		return
	}
	for _, f := range rep.Fails {
		x.Failf(strings.Replace(f.Key, "C20/sched/", "C20/v2sched/", 1), "on the cgroup v2 hierarchy (schedule vector %v): %s", f.Choices, f.What)
	}
	x.Count(rep.Steps)
	x.Add("v2_schedules", rep.Schedules)
	var oc []string
	for k, n := range rep.Outcomes {
		oc = append(oc, fmt.Sprintf("%s=%d", k, n))
		x.Distinct(fmt.Sprint("v2sched", scen, k))
	}
	sort.Strings(oc)
	x.Note("v2-outcomes", oc)
	x.Outcome(fmt.Sprintf("v2sched:%d:schedules=%d", scen, rep.Schedules))
}

// helper role (inside the v2 mount namespace): vcheck c20v2sched <scenario-index>
func c20v2schedHelper(args []string) int {
	scen := 0
	if len(args) > 0 {
		fmt.Sscan(args[0], &scen)
	}
	devnull()
	c20cleanup()
	defer c20cleanup()
	type frec struct {
		Key, What string
		Choices   []int
	}
	var fails []frec
	seen := map[string]bool{}
	outcomes := map[string]int{}
	var schedules, steps int64
	cur := []int{scen}
	for schedules < 200000 {
		x := mc.NewX(cur)
		c20schedules(x)
		schedules++
		steps += x.Evals()
		outcomes[x.OutcomeClass()]++
		for _, f := range x.Fails() {
			if !seen[f.Key] {
				seen[f.Key] = true
				fails = append(fails, frec{f.Key, f.What, append([]int{}, x.Choices...)})
			}
		}
		ar := x.Arity()
		i := len(x.Choices) - 1
		for ; i >= 1; i-- {
			if x.Choices[i]+1 < ar[i] {
				break
			}
		}
		if i < 1 {
			break
		}
		cur = append(append([]int{}, x.Choices[:i]...), x.Choices[i]+1)
	}
	b, _ := json.Marshal(map[string]any{"schedules": schedules, "steps": steps, "outcomes": outcomes, "fails": fails})
	fmt.Println(string(b))
	return 0
}

func init() { aux["c20v2sched"] = c20v2schedHelper }

// ---- schedules: two creators, all interleavings of their instrumented file-system calls

type c20sched struct {
	mu      sync.Mutex
	waiting map[int]chan struct{} // goroutine id → release channel
	arrived chan int
	done    chan int
}

var c20schedScenarios = []string{"New+New(same name)", "Random+Random(same first draw)", "New+Destroy-by-other-creator",
	"cgroup.New+cgroup.New(same prefix)", "cgroup.New+Destroy-by-other-creator(same prefix)"}

// family "many members": a group with more member processes than one page of cgroup.procs lists (the kernel hands out
// whole lines, one page at a time). Processes() must list every member, Nest must move every one of them.
func c20many(x *mc.X) {
	n := []int{100, 700, 1100}[x.Choose(3, "members")]
	op := x.Pick("operation", "Processes", "Nest")
	x.Note("scenario", fmt.Sprintf("%s on a group of %d processes", op, n+1))
	if x.Dry() {
		return
	}
	c20cleanup()
	defer c20cleanup()
	rel := c20prefix() + "/many"
	cg, err := cgroup.New(rel, &cgroup.Controllers{Memory: true, Pids: true})
	if err != nil {
		x.Failf("C20/harness", "many: New: %v", err)
		return
	}
	defer cg.Destroy()
	helper := exec.Command(probe("threads"), "f", fmt.Sprint(n))
	helper.SysProcAttr = &syscall.SysProcAttr{Setsid: true}
	hin, _ := helper.StdinPipe()
	hout, _ := helper.StdoutPipe()
	if err := helper.Start(); err != nil {
		x.Failf("C20/harness", "%v", err)
		return
	}
	defer func() { syscall.Kill(-helper.Process.Pid, syscall.SIGKILL); helper.Wait() }()
	if err := cg.AddProc(helper.Process.Pid); err != nil {
		x.Failf("C20/harness", "many: AddProc: %v", err)
		return
	}
	hin.Write([]byte{'g'})
	hout.Read(make([]byte, 8)) // "ready": the children exist, all born in the group
	raw := func(dir string) int {
		b, _ := os.ReadFile(filepath.Join(dir, "cgroup.procs"))
		return len(strings.Fields(string(b)))
	}
	dir := "/sys/fs/cgroup/memory/" + rel
	if got := raw(dir); got != n+1 {
		x.Failf("C20/harness", "many: the group holds %d processes, expected %d", got, n+1)
		return
	}
	x.Distinct(fmt.Sprint("many", n, op))
	x.Outcome("many:" + op)
	switch op {
	case "Processes":
		ps, err := cg.Processes()
		if err != nil || len(ps) != n+1 {
			x.Failf("C20/many/processes-lists-a-part", "Processes() of a group of %d processes returned %d pids (error %v)", n+1, len(ps), err)
		}
	case "Nest":
		sub, err := cg.Nest("inner")
		if err != nil {
			x.Failf("C20/many/nest-failed", "Nest on a group of %d processes: %v", n+1, err)
			return
		}
		defer sub.Destroy()
		for _, ctl := range []string{"memory", "pids"} {
			left, moved := raw("/sys/fs/cgroup/"+ctl+"/"+rel), raw("/sys/fs/cgroup/"+ctl+"/"+rel+"/inner")
			if left != 0 || moved != n+1 {
				x.Failf("C20/many/nest-moved-a-part", "Nest on a group of %d processes returned nil; under %s %d processes are in the sub-group and %d stayed in the parent", n+1, ctl, moved, left)
			}
		}
	}
}

// family "two handles, one group": the limits of a group are written through two handles of it (its creator and one
// obtained with OpenExisting) in every sequence of three writes over {handle} × {value set A, value set B}. After every
// write that reports success the group's files hold exactly what that write asked for: a handle that remembers what it
// wrote last cannot know what the other one wrote since.
func c20twoHandles(x *mc.X) {
	type vals struct{ quota, period, mem, pids uint64 }
	sets := []vals{{50000, 100000, 64 << 20, 17}, {20000, 50000, 32 << 20, 9}}
	var who, what [3]int
	for i := range who {
		who[i] = x.Choose(2, "handle")
		what[i] = x.Choose(2, "values")
	}
	x.Note("scenario", fmt.Sprintf("writes through handles %v with value sets %v", who, what))
	if x.Dry() {
		return
	}
	c20cleanup()
	defer c20cleanup()
	rel := c20prefix() + "/two"
	ct := &cgroup.Controllers{CPU: true, Memory: true, Pids: true}
	a, err := cgroup.New(rel, ct)
	if err != nil {
		x.Failf("C20/harness", "two handles: New: %v", err)
		return
	}
	defer a.Destroy()
	b, err := cgroup.OpenExisting(rel, ct)
	if err != nil || b == nil {
		x.Failf("C20/harness", "two handles: OpenExisting: %v", err)
		return
	}
	hs := []cgroup.Cgroup{a, b}
	read := func(f string) string {
		bs, _ := os.ReadFile("/sys/fs/cgroup/" + f)
		return strings.TrimSpace(string(bs))
	}
	for i := range who {
		v := sets[what[i]]
		h := hs[who[i]]
		e1 := h.SetCPUBandwidth(v.quota, v.period)
		e2 := h.SetMemoryLimit(v.mem)
		e3 := h.SetProcLimit(v.pids)
		x.Count(1)
		got := fmt.Sprint(read("cpu/"+rel+"/cpu.cfs_quota_us"), "/", read("cpu/"+rel+"/cpu.cfs_period_us"), " ", read("memory/"+rel+"/memory.limit_in_bytes"), " ", read("pids/"+rel+"/pids.max"))
		want := fmt.Sprint(v.quota, "/", v.period, " ", v.mem, " ", v.pids)
		x.Distinct(fmt.Sprint("two", who, what, i, got))
		if e1 == nil && e2 == nil && e3 == nil && got != want {
			x.Failf("C20/two-handles/limit-written-is-not-the-limit-in-force", "writes through handles %v with value sets %v: after write %d (all three setters returned nil) the group holds quota/period memory pids = %s, written %s", who, what, i+1, got, want)
		}
	}
	x.Outcome("two-handles")
}

func c20schedules(x *mc.X) {
	scen := x.Pick("scenario", c20schedScenarios...)
	x.Note("scenario", scen)
	if x.Dry() && false {
		return
	}
	// the schedule is chosen step by step: the body must run to know how many steps there are, so the coordinator's
	// frontier run is real but cheap (in-kernel directory operations only) and leaves nothing behind
	c20cleanup()
	defer c20cleanup()
	parentRel := c20prefix() + "/p" + fmt.Sprint(os.Getpid())
	pct := &cgroup.Controllers{Memory: true}
	if c20v2 {
		pct = &cgroup.Controllers{} // no controller can be enabled in this kernel's v2 hierarchy
	}
	parent, err := cgroup.New(parentRel, pct)
	if err != nil {
		x.Failf("C20/harness", "parent group: %v", err)
		return
	}
	defer parent.Destroy()
	type result struct {
		cg  cgroup.Cgroup
		err error
	}
	var res [2]result
	gate := [2]chan struct{}{make(chan struct{}), make(chan struct{})}
	arrived := make(chan int)
	finished := make(chan int)
	var cur sync.Map // goroutine → actor id, via a per-actor hook wrapper
	_ = cur
	actorOf := map[int64]int{}
	var amu sync.Mutex
	cgroup.VerifHook = func(op, path string) {
		id := goid()
		amu.Lock()
		a, ok := actorOf[id]
		amu.Unlock()
		if !ok {
			return
		}
		arrived <- a
		<-gate[a]
	}
	defer func() { cgroup.VerifHook = nil; cgroup.VerifRandom = nil }()
	draws := [2]int{}
	cgroup.VerifRandom = func() string {
		id := goid()
		amu.Lock()
		a := actorOf[id]
		amu.Unlock()
		draws[a]++
		if draws[a] == 1 {
			return "same"
		}
		return fmt.Sprintf("own%d-%d", a, draws[a])
	}
	actorGid := [2]int64{-1, -1}
	run := func(a int, f func() (cgroup.Cgroup, error)) {
		go func() {
			amu.Lock()
			actorOf[goid()] = a
			actorGid[a] = goid()
			amu.Unlock()
			cg, err := f()
			res[a] = result{cg, err}
			amu.Lock()
			delete(actorOf, goid())
			amu.Unlock()
			finished <- a
		}()
	}
	switch scen {
	case "New+New(same name)":
		run(0, func() (cgroup.Cgroup, error) { return parent.New("x") })
		run(1, func() (cgroup.Cgroup, error) { return parent.New("x") })
	case "Random+Random(same first draw)":
		run(0, func() (cgroup.Cgroup, error) { return parent.Random("r*") })
		run(1, func() (cgroup.Cgroup, error) { return parent.Random("r*") })
	case "cgroup.New+cgroup.New(same prefix)":
		run(0, func() (cgroup.Cgroup, error) { return cgroup.New(parentRel+"/x", pct) })
		run(1, func() (cgroup.Cgroup, error) { return cgroup.New(parentRel+"/x", pct) })
	case "cgroup.New+Destroy-by-other-creator(same prefix)":
		run(0, func() (cgroup.Cgroup, error) { return cgroup.New(parentRel+"/x", pct) })
		run(1, func() (cgroup.Cgroup, error) {
			cg, err := cgroup.New(parentRel+"/x", pct)
			if err == nil {
				err = cg.Destroy()
			}
			return cg, err
		})
	case "New+Destroy-by-other-creator":
		run(0, func() (cgroup.Cgroup, error) { return parent.New("x") })
		run(1, func() (cgroup.Cgroup, error) {
			cg, err := parent.New("x")
			if err == nil {
				err = cg.Destroy()
			}
			return cg, err
		})
	}
	// scheduler: both actors park at their next file-system call (or finish); choose who goes
	parked := [2]bool{}
	over := [2]bool{}
	var trace []int
	for !(over[0] && over[1]) {
		// wait until every live actor is parked at a scheduling point, finished, or blocked on a lock of the package that
		// the other (parked) actor holds — waiting is made visible by looking at the goroutine's state
		blocked := [2]bool{}
		for a := 0; a < 2; a++ {
			waited := time.Duration(0)
			for !parked[a] && !over[a] && !blocked[a] {
				select {
				case w := <-arrived:
					parked[w] = true
				case w := <-finished:
					over[w] = true
				case <-time.After(2 * time.Millisecond):
					waited += 2 * time.Millisecond
					amu.Lock()
					g := actorGid[a]
					amu.Unlock()
					if st := goroutineState(g); strings.Contains(st, "Mutex") || strings.Contains(st, "semacquire") || strings.Contains(st, "Cond.Wait") {
						blocked[a] = true
					}
					if waited < horizon {
						continue
					}
					x.Failf("C20/sched/stuck", "%s: an actor neither reached a scheduling point nor finished", scen)
					return
				}
			}
		}
		var enabled []int
		for a := 0; a < 2; a++ {
			if parked[a] {
				enabled = append(enabled, a)
			}
		}
		if len(enabled) == 0 {
			if blocked[0] || blocked[1] {
				x.Failf("C20/sched/deadlock/"+scen, "%s, schedule %v: no actor can move (blocked on a lock: %v)", scen, trace, blocked)
				return
			}
			break
		}
		a := enabled[0]
		if len(enabled) == 2 {
			a = enabled[x.Choose(2, "who-runs")]
		}
		trace = append(trace, a)
		parked[a] = false
		gate[a] <- struct{}{}
	}
	x.Note("schedule", trace)
	x.Count(int64(len(trace)))
	// oracle
	var made []string
	for a := 0; a < 2; a++ {
		if res[a].err == nil && res[a].cg != nil && !strings.Contains(scen, "Destroy-by-other-creator") {
			for _, p := range cgroup.VerifPaths(res[a].cg) {
				if !res[a].cg.Existing() {
					made = append(made, p)
				}
			}
		}
	}
	sort.Strings(made)
	for i := 1; i < len(made); i++ {
		if made[i] == made[i-1] {
			x.Failf("C20/sched/two-owners/"+scen, "%s, schedule %v: both creators hold a handle that claims to have created %s (destroying either removes the other's group)", scen, trace, made[i])
		}
	}
	if scen == "Random+Random(same first draw)" && res[0].err == nil && res[1].err == nil {
		p0, p1 := cgroup.VerifPaths(res[0].cg), cgroup.VerifPaths(res[1].cg)
		if len(p0) > 0 && len(p1) > 0 && p0[0] == p1[0] {
			x.Failf("C20/sched/random-not-distinct", "%s, schedule %v: two concurrent Random calls returned the same group %s", scen, trace, p0[0])
		}
	}
	if strings.Contains(scen, "Destroy-by-other-creator") && res[0].err == nil && res[0].cg != nil {
		// creator 0 believes it owns x if it reports !Existing(); then x must still exist unless creator 1 created it
		p := cgroup.VerifPaths(res[0].cg)
		if !res[0].cg.Existing() && len(p) > 0 && !dirExists(p[0]) {
			x.Failf("C20/sched/destroyed-by-non-creator", "%s, schedule %v: the group created by one caller was removed by the other caller's Destroy", scen, trace)
		}
	}
	for a := 0; a < 2; a++ {
		if res[a].cg != nil && res[a].err == nil {
			res[a].cg.Destroy()
		}
	}
	x.Distinct(fmt.Sprint(scen, trace, made))
	x.Outcome(fmt.Sprintf("sched:%s:made=%d", scen, len(made)))
}

// ---- statistics files on fake directories

func c20stats(x *mc.X) {
	layout := x.Pick("layout", "v1", "v2")
	vals := []uint64{0, 1, 1 << 32, 1 << 53}
	v := vals[x.Choose(len(vals), "value")]
	shape := x.Pick("file-shape", "plain", "no-trailing-newline", "extra-fields-before", "extra-fields-after", "missing-file")
	x.Note("stats", fmt.Sprintf("%s value=%d %s", layout, v, shape))
	if x.Dry() {
		return
	}
	dir := tmpDir("c20s")
	defer os.RemoveAll(dir)
	wr := func(name, content string) {
		if shape == "missing-file" {
			return
		}
		if shape == "no-trailing-newline" {
			content = strings.TrimSuffix(content, "\n")
		}
		os.WriteFile(filepath.Join(dir, name), []byte(content), 0644)
	}
	num := strconv.FormatUint(v, 10)
	type reading struct {
		name string
		f    func() (uint64, error)
		want uint64
	}
	var rs []reading
	if layout == "v2" {
		stat := "usage_usec " + num + "\n"
		switch shape {
		case "extra-fields-before":
			stat = "nr_periods 5\nuser_usec 3\n" + stat
		case "extra-fields-after":
			stat = stat + "user_usec 3\nsystem_usec 4\nnr_throttled 0\n"
		}
		wr("cpu.stat", stat)
		wr("memory.peak", num+"\n")
		wr("memory.current", num+"\n")
		wr("pids.peak", num+"\n")
		h := cgroup.VerifNewV2(dir, &cgroup.Controllers{CPU: true, Memory: true, Pids: true})
		rs = []reading{{"CPUUsage", h.CPUUsage, v * 1000}, {"MemoryMaxUsage", h.MemoryMaxUsage, v}, {"MemoryUsage", h.MemoryUsage, v}, {"ProcessPeak", h.ProcessPeak, v}}
	} else {
		wr("cpuacct.usage", num+"\n")
		wr("memory.max_usage_in_bytes", num+"\n")
		wr("memory.usage_in_bytes", num+"\n")
		h := cgroup.VerifNewV1(dir, dir, dir, dir)
		rs = []reading{{"CPUUsage", h.CPUUsage, v}, {"MemoryMaxUsage", h.MemoryMaxUsage, v}, {"MemoryUsage", h.MemoryUsage, v}}
	}
	out := ""
	for _, r := range rs {
		got, err := r.f()
		x.Count(1)
		switch {
		case shape == "missing-file":
			if err == nil {
				x.Failf("C20/stats/missing-file-no-error/"+layout+"/"+r.name, "%s %s: the statistics file is missing but %d was returned without error", layout, r.name, got)
			}
			out += "e"
		case err != nil:
			x.Failf("C20/stats/read-failed/"+layout+"/"+r.name+"/"+shape, "%s %s (%s, value %d): %v", layout, r.name, shape, v, err)
			out += "E"
		case got != r.want:
			x.Failf("C20/stats/wrong-unit-or-value/"+layout+"/"+r.name, "%s %s (%s): file says %d, returned %d, expected %d (nanoseconds / bytes / count)", layout, r.name, shape, v, got, r.want)
			out += "!"
		default:
			out += "="
		}
	}
	// limits written through the handle are what the files hold
	if layout == "v2" && shape == "plain" {
		h := cgroup.VerifNewV2(dir, &cgroup.Controllers{CPU: true, Memory: true, Pids: true})
		h.SetMemoryLimit(v)
		h.SetProcLimit(v)
		h.SetCPUBandwidth(v, 100000)
		for f, want := range map[string]string{"memory.max": num, "pids.max": num, "cpu.max": num + " 100000"} {
			b, _ := os.ReadFile(filepath.Join(dir, f))
			if strings.TrimSpace(string(b)) != want {
				x.Failf("C20/stats/limit-file/"+f, "v2 %s holds %q after setting %s", f, strings.TrimSpace(string(b)), want)
			}
		}
	}
	x.Distinct(fmt.Sprint(layout, v, shape, out))
	x.Outcome("stats:" + layout + ":" + out)
}

// goid returns the id of the calling goroutine (parsed from the stack header).
// goroutineState returns the wait state the runtime prints for goroutine id ("" if it is gone).
func goroutineState(id int64) string {
	if id < 0 {
		return ""
	}
	buf := make([]byte, 1<<20)
	n := runtime.Stack(buf, true)
	tag := fmt.Sprintf("goroutine %d [", id)
	for _, l := range strings.Split(string(buf[:n]), "\n") {
		if strings.HasPrefix(l, tag) {
			return strings.TrimSuffix(strings.TrimPrefix(l, tag), "]:")
		}
	}
	return ""
}

func goid() int64 {
	var buf [64]byte
	n := runtimeStack(buf[:])
	f := strings.Fields(string(buf[:n]))
	if len(f) < 2 {
		return -1
	}
	id, _ := strconv.ParseInt(f[1], 10, 64)
	return id
}
