#!/usr/bin/env python3
"""Prints the prompt given to an independent sub-agent asked to seed a property-breaking change (property text only)."""
import json, sys
pid = sys.argv[1]; wt = sys.argv[2]
variant = sys.argv[3] if len(sys.argv) > 3 else ""
for l in open("/verif/properties.jsonl"):
    p = json.loads(l)
    if p["id"] == pid: break
print(f"""You are testing how robust a Go library's guarantees are against subtle regressions. The library is criyle/go-sandbox
(a Linux process sandbox in Go: raw fork/exec with namespaces, seccomp, ptrace syscall tracing, cgroups, rlimits, and a
pre-forked container RPC protocol over unix sockets). You have your own scratch git worktree of it at {wt} . Work ONLY inside
{wt} (and /tmp for throw-away files). Do not read or write /verif or /repo, and do not look for other tooling on this
machine: your work must be independent.

Here is a semantic property the library is supposed to satisfy:

  Title: {p['title']}
  Statement: {p['statement']}
  Quantified over: {p['quantifier']['text']}
  Code it is anchored in: {', '.join(p['anchors']['files'])}

Your task: make ONE realistic change to the library's (non-test) Go source in {wt} that BREAKS this property, such that
  (a) the library still compiles, and the existing test suite still passes:
        cd {wt} && GOFLAGS=-mod=mod GOPROXY=off go test -vet=off -count=1 ./...
      (leave GOTOOLCHAIN and GOSUMDB unset; the machine is offline; pkg/cgroup TestCgroupAll fails even without any change - ignore it;
       do not edit or add *_test.go files of the existing suite as part of the change);
  (b) the breakage needs something SPECIFIC to manifest - a particular interleaving, a crash or fault at a particular point, a
      multi-step sequence of operations, an unusual input, or two cooperating sites that each look fine alone - not something
      ordinary use would expose at once. It should look like a plausible refactoring slip, off-by-one, wrong flag, reordered
      step, dropped cleanup, or missed case a maintainer could really make; it must not be a no-op and must not just delete a feature;
  (c) you provide a DEMONSTRATION: a new Go test file (or small program) that FAILS with your change and PASSES without it,
      deterministically (run it at least 3 times each way). We are root in a VM with full capabilities (namespaces, ptrace,
      seccomp, cgroup v1 mounted at /sys/fs/cgroup all work). If a demonstration test binary builds containers with
      container.Builder it must call container.Init() in an init() function. gcc -static works if you need a C helper.
{variant}
Deliverables, all inside {wt}/_seed/ :
  - patch.diff   : `git diff` of the library change only (no demo files in it), applicable with `git apply` at the repo root;
  - demo/        : the demonstration (e.g. demo/xxx_demo_test.go plus a note where it must be copied to run, or a main package);
  - README.md    : which property clause it breaks, what exactly is needed for it to manifest, and the exact commands you ran to
                   show: existing tests pass with the change; demo fails with the change; demo passes without it.
Before finishing, leave the worktree with the change APPLIED (working tree dirty, nothing committed). Keep the change small
(ideally under 15 lines). Report a short summary at the end.""")
