// overlay: writes a go build -overlay description that instruments /repo/pkg/cgroup without touching the repository:
// every file-system call of the package becomes a scheduling point (vStat, vMkdir, ...), nextRandom gets a seam, and an
// added file exports constructors for handles on arbitrary directories. The current files are parsed, so changes made
// to the repository elsewhere in those files are carried along unchanged.
package main

import (
	"bytes"
	"encoding/json"
	"fmt"
	"go/ast"
	"go/parser"
	"go/printer"
	"go/token"
	"os"
	"path/filepath"
	"strings"
)

var hooked = map[string]map[string]bool{
	"os":      {"Stat": true, "Mkdir": true, "MkdirAll": true, "ReadFile": true, "WriteFile": true, "OpenFile": true},
	"syscall": {"Rmdir": true},
}

const added = `//go:build linux

package cgroup

import (
	"io/fs"
	"os"
	"syscall"
)

// VerifHook is called before every file-system operation of this package (verification build only).
var VerifHook func(op, path string)

// VerifRandom, when set, replaces the random source of Random().
var VerifRandom func() string

func vpoint(op, path string) {
	if h := VerifHook; h != nil {
		h(op, path)
	}
}

func vStat(p string) (os.FileInfo, error)               { vpoint("stat", p); return os.Stat(p) }
func vMkdir(p string, m fs.FileMode) error              { vpoint("mkdir", p); return os.Mkdir(p, m) }
func vMkdirAll(p string, m fs.FileMode) error           { vpoint("mkdirall", p); return os.MkdirAll(p, m) }
func vReadFile(p string) ([]byte, error)                { vpoint("read", p); return os.ReadFile(p) }
func vWriteFile(p string, b []byte, m fs.FileMode) error { vpoint("write", p); return os.WriteFile(p, b, m) }
func vOpenFile(p string, f int, m fs.FileMode) (*os.File, error) {
	vpoint("open", p)
	return os.OpenFile(p, f, m)
}
func vRmdir(p string) error { vpoint("rmdir", p); return syscall.Rmdir(p) }

// VerifNewV2 returns a v2 handle on an arbitrary directory.
func VerifNewV2(path string, ct *Controllers) *V2 { return &V2{path: path, control: ct, existing: true} }

// VerifNewV1 returns a v1 handle whose controllers live in arbitrary directories ("" = controller absent).
func VerifNewV1(cpu, cpuacct, memory, pids string) *V1 {
	v := &V1{existing: true}
	mk := func(p string) *v1controller {
		if p == "" {
			return nil
		}
		c := newV1Controller(p)
		v.all = append(v.all, c)
		return c
	}
	v.cpu, v.cpuacct, v.memory, v.pids = mk(cpu), mk(cpuacct), mk(memory), mk(pids)
	return v
}

// VerifPaths returns the directories a handle controls.
func VerifPaths(c Cgroup) []string {
	switch h := c.(type) {
	case *V1:
		var out []string
		for _, x := range []*v1controller{h.cpu, h.cpuset, h.cpuacct, h.memory, h.pids} {
			if x != nil {
				out = append(out, x.path)
			}
		}
		return out
	case *V2:
		return []string{h.path}
	}
	return nil
}
`

func main() {
	repo, outDir := os.Args[1], os.Args[2]
	pkg := filepath.Join(repo, "pkg", "cgroup")
	os.MkdirAll(outDir, 0755)
	replace := map[string]string{}
	// optional third argument: a scratch tree holding a candidate change (tools/trymut.sh). Every Go file that differs
	// from the repository is mapped in, so the repository itself is never modified while a change is tried.
	alt := ""
	if len(os.Args) > 3 && os.Args[3] != "" {
		alt = os.Args[3]
		filepath.Walk(alt, func(p string, fi os.FileInfo, err error) error {
			if err != nil {
				return nil
			}
			rel, _ := filepath.Rel(alt, p)
			if fi.IsDir() {
				if strings.HasPrefix(fi.Name(), ".") || strings.HasPrefix(fi.Name(), "_") {
					return filepath.SkipDir
				}
				return nil
			}
			if !strings.HasSuffix(p, ".go") || strings.HasSuffix(p, "_test.go") {
				return nil
			}
			a, _ := os.ReadFile(p)
			b, err2 := os.ReadFile(filepath.Join(repo, rel))
			if err2 != nil || !bytes.Equal(a, b) {
				replace[filepath.Join(repo, rel)] = p
			}
			return nil
		})
	}
	srcOf := func(n string) string {
		if alt != "" {
			if _, err := os.Stat(filepath.Join(alt, "pkg", "cgroup", n)); err == nil {
				return filepath.Join(alt, "pkg", "cgroup", n)
			}
		}
		return filepath.Join(pkg, n)
	}
	ents, err := os.ReadDir(pkg)
	if err != nil {
		fmt.Fprintln(os.Stderr, err)
		os.Exit(1)
	}
	points := 0
	for _, e := range ents {
		n := e.Name()
		if !strings.HasSuffix(n, ".go") || strings.HasSuffix(n, "_test.go") {
			continue
		}
		fset := token.NewFileSet()
		f, err := parser.ParseFile(fset, srcOf(n), nil, parser.ParseComments)
		if err != nil {
			fmt.Fprintln(os.Stderr, err)
			os.Exit(1)
		}
		changed := false
		ast.Inspect(f, func(nd ast.Node) bool {
			if call, ok := nd.(*ast.CallExpr); ok {
				if sel, ok := call.Fun.(*ast.SelectorExpr); ok {
					if id, ok := sel.X.(*ast.Ident); ok && hooked[id.Name][sel.Sel.Name] {
						call.Fun = ast.NewIdent("v" + sel.Sel.Name)
						changed = true
						points++
					}
				}
			}
			if fn, ok := nd.(*ast.FuncDecl); ok && fn.Name.Name == "nextRandom" && fn.Recv == nil {
				// if VerifRandom != nil { return VerifRandom() }
				guard := &ast.IfStmt{
					Cond: &ast.BinaryExpr{X: ast.NewIdent("VerifRandom"), Op: token.NEQ, Y: ast.NewIdent("nil")},
					Body: &ast.BlockStmt{List: []ast.Stmt{&ast.ReturnStmt{Results: []ast.Expr{&ast.CallExpr{Fun: ast.NewIdent("VerifRandom")}}}}},
				}
				fn.Body.List = append([]ast.Stmt{guard}, fn.Body.List...)
				changed = true
			}
			return true
		})
		if !changed {
			continue
		}
		var buf bytes.Buffer
		printer.Fprint(&buf, fset, f)
		// keep imports used even if every use was rewritten
		for _, imp := range f.Imports {
			switch imp.Path.Value {
			case `"os"`:
				buf.WriteString("\nvar _ = os.Getpid\n")
			case `"syscall"`:
				buf.WriteString("\nvar _ = syscall.Getpid\n")
			}
		}
		out := filepath.Join(outDir, n)
		os.WriteFile(out, buf.Bytes(), 0644)
		replace[filepath.Join(pkg, n)] = out
	}
	addedPath := filepath.Join(outDir, "zz_verif_added_linux.go")
	os.WriteFile(addedPath, []byte(added), 0644)
	replace[filepath.Join(pkg, "zz_verif_added_linux.go")] = addedPath
	b, _ := json.MarshalIndent(map[string]any{"Replace": replace}, "", " ")
	os.WriteFile(filepath.Join(outDir, "overlay.json"), b, 0644)
	fmt.Printf("overlay: %d files rewritten, %d scheduling points\n", len(replace)-1, points)
}
