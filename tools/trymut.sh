#!/bin/bash
# tools/trymut.sh <patch.diff> <id> [tier]  — try a seeded change against one check WITHOUT touching /repo: the patch is
# applied in a scratch worktree and mapped over /repo with go build -overlay; afterwards the binary is rebuilt from /repo.
set -u
patch="$(readlink -f "$1")"; id="$2"; tier="${3:-quick}"
cd /verif
wt=/tmp/trymut.$$
git -C /repo worktree add --detach -f "$wt" HEAD -q || exit 9
trap 'cd /; git -C /repo worktree remove --force "$wt" 2>/dev/null; git -C /repo worktree prune' EXIT
git -C "$wt" apply "$patch" || { echo "patch does not apply" >&2; exit 9; }
VERIF_ALT_ROOT="$wt" timeout ${MUT_TIMEOUT:-1500} ./run "$id" "$tier" 2>&1 | grep -v '^   ' | cut -c1-${WIDTH:-260} | tail -${TAIL:-12}
rc=${PIPESTATUS[0]}
git -C /verif checkout -- evidence 2>/dev/null
./build.sh >/dev/null 2>&1
echo "exit=$rc"
exit $rc
