#!/bin/bash
# tools/trymut.sh <patch.diff> <id> [tier]  — apply a seeded change to /repo, run one check, undo the change.
set -u
patch="$(readlink -f "$1")"; id="$2"; tier="${3:-quick}"
cd /verif
if ! git -C /repo diff --quiet; then echo "/repo is dirty" >&2; exit 9; fi
git -C /repo apply "$patch" || { echo "patch does not apply" >&2; exit 9; }
timeout ${MUT_TIMEOUT:-1500} ./run "$id" "$tier" 2>&1 | grep -v '^  ' | tail -${TAIL:-8}
rc=${PIPESTATUS[0]}
git -C /repo checkout -- . ; git -C /repo clean -fdq
git -C /verif checkout -- evidence 2>/dev/null
echo "exit=$rc"
exit $rc
