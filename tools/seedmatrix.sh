#!/bin/bash
# tools/seedmatrix.sh [-j N] [-t tier] <seed-dir>[:<check-id>] ...  — runs every named seed against the check of its own
# property (or the one given after the colon) through tools/trymutp.sh, N at a time; one line per seed.
cd "$(dirname "$0")/.."
j=3; tier=quick
while getopts j:t: o; do case $o in j) j=$OPTARG;; t) tier=$OPTARG;; esac; done; shift $((OPTIND-1))
one() {
  spec="$1"; tier="$2"; d="${spec%%:*}"; id="${spec#*:}"
  [ "$id" = "$spec" ] && id=$(jq -r .property "$d/meta.json")
  s=$(date +%s)
  out=$(TAIL=400 tools/trymutp.sh "$d/patch.diff" "$id" "$tier" 2>&1)
  rc=$(echo "$out" | sed -n 's/^exit=//p' | tail -1)
  v=$(echo "$out" | grep -c '^VIOLATION')
  first=$(echo "$out" | grep -m2 -E '^  key=|HARNESS|does not apply|NONDETERMINISM' | cut -c1-200 | tr '\n' ' ')
  echo "$(basename "$d") check=$id rc=$rc violations=$v $(( $(date +%s) - s ))s :: $first"
}
export -f one
printf '%s\n' "$@" | xargs -P "$j" -I{} bash -c 'one "$1" "$2"' _ {} "$tier"
