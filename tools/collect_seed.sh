#!/bin/bash
# tools/collect_seed.sh <seed-name> <worktree> <demo-dest-dir-rel> <go-test-run-regex> <property> "<needs>"
# Confirms a seeded change (suite passes with it; demo fails with it, passes without it) and stores it under /verif/seeded/<seed-name>/.
set -u
name="$1"; wt="$2"; dest="$3"; rx="$4"; prop="$5"; needs="$6"
export GOFLAGS=-mod=mod GOPROXY=off; unset GOTOOLCHAIN GOSUMDB
out=/verif/seeded/$name; mkdir -p "$out"
cd "$wt" || exit 9
git checkout -q -- . ; git clean -fdq -e _seed
git apply _seed/patch.diff || { echo "patch does not apply"; exit 9; }
suite_once() { go test -vet=off -count=1 "$@" 2>&1 | grep -E '^(FAIL|---|ok|panic)' | grep -v '^ok' | grep -v 'pkg/cgroup' | grep -v TestCgroupAll | grep -v '^FAIL$' | tr '\n' ';'; }
suite=$(suite_once ./...)
# a failure seen under machine load (20 agents at once) is re-run alone, twice; only a failure that stays is recorded
if [ -n "$suite" ]; then
  pk=$(echo "$suite" | tr ';' '\n' | sed -n 's/^FAIL[ \t]*\(github.com[^ \t]*\).*/\1/p' | sort -u | tr '\n' ' ')
  sleep 5; s2=$(suite_once $pk); [ -n "$s2" ] && { sleep 10; s2=$(suite_once $pk); }
  if [ -z "$s2" ]; then suite=""; flaky="first pass under load: $pk failed, passed when re-run alone"; else suite="$s2"; fi
fi
mkdir -p "$dest"; cp _seed/demo/*_test.go "$dest"/ 2>/dev/null
for f in _seed/demo/*.c _seed/demo/*.go; do case "$f" in *_test.go) ;; *) [ -e "$f" ] && cp "$f" "$dest"/ ;; esac; done
with=""; for i in 1 2 3; do if go test -vet=off -count=1 -run "$rx" ./"$dest" >/tmp/seed_with.$$ 2>&1; then with="$with pass"; else with="$with FAIL"; fi; done
git apply -R _seed/patch.diff
without=""; for i in 1 2 3; do if go test -vet=off -count=1 -run "$rx" ./"$dest" >/tmp/seed_without.$$ 2>&1; then without="$without pass"; else without="$without FAIL"; fi; done
echo "suite-with-change (non-ok lines, cgroup excluded): [$suite]"; echo "demo with change:$with"; echo "demo without change:$without"
tail -5 /tmp/seed_without.$$
cp _seed/patch.diff "$out"/; rm -rf "$out/demo"; cp -r _seed/demo "$out"/; cp _seed/README.md "$out"/ 2>/dev/null
python3 - "$name" "$prop" "$needs" "$suite" "$with" "$without" "$dest" "$rx" "${flaky:-}" > "$out/meta.json" <<'PY'
import json,sys
n,prop,needs,suite,w,wo,dest,rx,flaky=sys.argv[1:10]
print(json.dumps({"seed":n,"property":prop,"needs_to_manifest":needs,"origin":"independent sub-agent given only the property text and a scratch worktree",
 "confirmed":{"existing_suite_with_change_non_ok":suite or ("none (all ok; pkg/cgroup TestCgroupAll is the baseline always_fail)"+(("; "+flaky) if flaky else "")),"demo_with_change_x3":w.split(),"demo_without_change_x3":wo.split(),
 "how":"tools/collect_seed.sh: demo copied to %s, go test -vet=off -count=1 -run '%s'"%(dest,rx)}},indent=1))
PY
rm -f /tmp/seed_with.$$ /tmp/seed_without.$$
cd /; git -C /repo worktree remove --force "$wt"; echo "stored $out"
