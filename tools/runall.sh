#!/bin/bash
# tools/runall.sh [quick|thorough] — runs every registered check (or those named in $IDS) sequentially on the current tree, prints one line per check
tier="${1:-quick}"
cd "$(dirname "$0")/.."
for id in ${IDS:-$(jq -r '.checks[].property_id' MANIFEST.json)}; do
  s=$(date +%s)
  out=$(timeout 3600 ./run "$id" "$tier" 2>&1); rc=$?
  e=$(( $(date +%s) - s ))
  echo "$id rc=$rc ${e}s $(echo "$out" | grep -c '^KNOWN-FINDING') known, $(echo "$out" | grep -c '^VIOLATION') violations :: $(echo "$out" | tail -1 | cut -c1-150)"
done
