#!/bin/bash
# tools/trymutp.sh <patch.diff> <id> [tier]  — like trymut.sh, but safe to run several at once and beside ./run:
# the machinery is copied to a scratch directory (own bin/, evidence/, replays/), the patch is applied in a scratch
# worktree of /repo and mapped over /repo with go build -overlay. Neither /repo nor /verif is touched.
set -u
patch="$(readlink -f "$1")"; id="$2"; tier="${3:-quick}"; shift; shift; shift 2>/dev/null || true
top=/tmp/trymutp.$$; wt=$top/wt; vd=$top/verif
mkdir -p "$top"
trap 'cd /; git -C /repo worktree remove --force "$wt" 2>/dev/null; git -C /repo worktree prune; rm -rf "$top"' EXIT
git -C /repo worktree add --detach -f "$wt" HEAD -q || exit 9
git -C "$wt" apply "$patch" || { echo "patch does not apply" >&2; exit 9; }
mkdir -p "$vd"
rsync -a --exclude '/bin/vcheck*' --exclude '/bin/overlay.*' --exclude /replays --exclude /.git --exclude /seeded /verif/ "$vd"/
cd "$vd"
VERIF_ALT_ROOT="$wt" timeout ${MUT_TIMEOUT:-1500} ./run "$id" "$tier" "$@" 2>&1 | grep -v '^   ' | cut -c1-${WIDTH:-260} | tail -${TAIL:-12}
rc=${PIPESTATUS[0]}
echo "exit=$rc"
exit $rc
