#!/usr/bin/env python3
"""Generates /verif/MANIFEST.json from the table below and validates it (and any evidence files) against the schemas."""
import json, os, sys, glob
HERE = os.path.dirname(os.path.dirname(os.path.abspath(__file__)))

ALL = ["C%02d" % i for i in range(1, 21)]

# id -> (category, technique, text, note)
CHECKS = {
 "C01": ("exploration",
         "bounded-exhaustive enumeration of policies; each compiled filter is executed in a cBPF interpreter over struct seccomp_data on a closed input set (thorough: full 2^32 syscall-number and architecture-tag sweeps) against the reference policy semantics",
         "Every assignment {absent, allow, trace} of a 6-name (thorough: 8) syscall alphabet x 8 default-action values x both list orders, plus whole-table / alternating / shipped run-program policies that force the long-jump code paths, plus malformed policies that must be refused. The filter that Build() hands to the kernel (after ExportBPF, via SockFprog) is interpreted with kernel cBPF semantics on native-arch x {0..4095 (thorough 0..65535), every table number +-1 with and without bit 30 / bit 31, boundary values} and on 63 foreign/flipped architecture tags; thorough adds complete 2^32 syscall-number sweeps (6 policies x 3 tags) and complete 2^32 architecture sweeps.",
         "Trusted: /verif/cbpf interpreter (kernel classic-BPF semantics for the seccomp subset; a structural pass re-checks per program that only nr and arch are loaded, so ip/args cannot matter). For nr >= 2^31 with bit 30 clear the oracle accepts refusal or the default action (the dependency refuses everything >= 2^30, which is stricter than the property)."),
 "C02": ("exploration",
         "bounded-exhaustive enumeration of symlink forests x pathnames x dirfd encodings x traced path syscalls issued by a real tracee under runner/ptrace; differential oracle: the kernel's own resolution of the same (dirfd, pathname) pair in the harness (O_PATH[|O_NOFOLLOW] open + readlink of /proc/self/fd)",
         "One forest per execution (dirs a, b, a/c; files; zero or one symlink at l or a/l over ten target kinds incl. relative, absolute, '..', '.', chain, dangling, /proc/self/cwd). In it every pathname of <=2 (thorough: <=3) components over {a,b,c,x,l,.,..}, relative and absolute, with trailing and doubled slashes, plus /proc/self and /proc/thread-self aliases, is issued from cwd in {root, a} with every dirfd encoding (AT_FDCWD sign-extended, zero-extended, directory fd, fd with garbage in the upper half, closed fd) through every traced path syscall / flag word of the tier (quick: openat with 10 flag words, newfstatat +-NOFOLLOW, unlinkat, renameat2, lstat, symlinkat; thorough: all 25 incl. open/openat2 flag words, stat family, access family, readlink, unlink, rename, link, symlink, mkdir, mknod, chmod, execve/execveat); two-path calls resolve their second name against the other kind of base. A recording soft-ban policy notes every question; the expected object is what the kernel resolves, the expected class follows from the call and flags.",
         "Names the kernel itself cannot resolve are not judged (the call fails whatever the policy answers). Paths refused by the procfs policy before the file policy is consulted count as not admitted. Two open findings (lexical '..' collapse after a symlink; final symlink followed for no-follow calls) are listed in known_findings.json with defect signatures, so a different wrong answer on the same inputs is still reported."),
 "C03": ("exploration",
         "bounded-exhaustive enumeration of syscall programs x issuer x verdict maps on a real tracer and tracee, against a reference interpreter of the script (return values from the tracee's own log, side effects from the file system)",
         "Seam A drives ptracer.Tracer directly with a scripted Handle: every program of <=2 (thorough: <=3) operations over {mkdirat, unlinkat, openat(O_CREAT) traced; getpid allowed; getuid neither allowed nor traced} x issuer in {main, forked child, vforked child, CLONE_THREAD thread, grandchild} x every map traced-op -> {allow, ban, kill}; allowed ops must execute with their real result, banned ops must not execute and must return -EACCES, killed ops and everything after must not take effect and the run must end Disallowed Syscall, a filter kill of the main thread group likewise. Seam B drives runner/ptrace.Runner with a scripted path policy: mkdirat / unlinkat / renameat2 / linkat x every per-path verdict pair x issuer.",
         "Programs are sequential (a parent waits for its sub-script). A filter kill inside a child process ends only that child; Disallowed Syscall is required only for the main thread group. The tracee is a freestanding static probe (no libc start-up syscalls) so a strict default-kill filter can be used."),
 "C04": ("exploration",
         "exhaustive enumeration of the launch-option lattice on real forkexec launches of a self-reporting probe; reference function options -> security state; namespace identities read from the host side",
         "All 3x2^5 combinations of {credential (with groups / with empty groups / none), drop-caps, no-new-privs, seccomp filter, sync callback, unshare-cgroup-after-sync} x 6 namespace modes (none; user; pid+mnt+uts+ipc+net; user+those; those+pivot root; user+those+pivot root) x {no tracing, ptrace (the harness is the tracer and detaches), stop-before-seccomp}, with work dir and host/domain name requested whenever namespaces allow. The probe reports capability sets, securebits, no_new_privs, seccomp mode, uids/gids/groups, session, cwd, uname; the harness compares /proc/<pid>/ns/* with its own. The launching process is given supplementary groups so that inheriting them is visible.",
         "Not exercised: CLONE_INTO_CGROUP (no cgroup v2 controllers here), CTTY. stop-before-seccomp together with a sync callback and no tracer cannot return from Start by design and is skipped. Kernel-rejected combinations are recorded as launch errors, not judged (C07 checks the error naming)."),
 "C06": ("exploration",
         "bounded-exhaustive enumeration of descriptor lists x ExecFile placement x socketpair placement x vfork/non-vfork on real launches of a self-reporting probe, each configuration started twice; identity oracle on (st_dev, st_ino)",
         "Every descriptor list of length <=3 (thorough: <=4) over {close marker, caller fds 0,1,2, reserved low fds, high fds, the ExecFile number} x ExecFile in {none, low, high} x internal socketpair landing inside or above the listed range x vfork / non-vfork, started twice from the same Runner value; the program (static C probe) reports every open descriptor with (dev, ino, cloexec); slot i must be the i-th listed open file, marker slots closed, nothing else open, Runner deep-equal before/after, second start identical. Plus container.Execve with Files/ExecFile lists (sync before/after exec).",
         "The harness makes all of its own descriptors close-on-exec and only shapes descriptor numbers it reserved itself (Go runtime descriptors are never touched). Process creation does not scale on this VM (~450 launches/s in total), which bounds the alphabet; quick uses a reduced value alphabet."),
 "C07": ("fault_enumeration",
         "enumeration of every launch configuration x one failure induced by real inputs at every reachable launch step (plus a crash of the supervisor inside the callback), on real launches; marker file, error location and child reaping as oracles",
         "All 32 subsets of {sync callback, seccomp, user namespace, pivot root + mounts, unshare-cgroup-after-sync} x 21 fault classes (clone with a bad cgroup fd, id-map of size 0, unmapped uid/gid/group, closed fd in the list, ctty on a non-tty, missing mount source for each mount index, mkdir under a read-only bind, pivot root that is a file, missing work dir, soft>hard rlimit at each index, undecodable seccomp filter, callback error, execve ENOENT/EACCES/ENOEXEC, none): in the callback the pid must be a child of the caller still running the launcher image with the marker absent; after a failure the marker never exists, the error is a ChildError with the expected step and index (callback errors verbatim), and no child is left (children list, /proc/<pid>). A helper process whose callback SIGKILLs its own process covers 'supervisor dies inside the callback' for 16 configurations. The same fault classes go through the namespace runner, the tracer and container.Execve with sync before and after exec (host-side pid / container init identified through NSpid).",
         "Failures are induced through inputs, not failpoints; steps that cannot be made to fail by inputs as root (close of the write end, getpid, setsid, keep-capability prctl, umount/rmdir of old_root, ptrace-me, SIGSTOP) are not covered. With sync after exec a callback error may legitimately find the program already started."),
 "C08": ("exploration",
         "bounded-exhaustive enumeration of limit records, two-run container histories, overrun programs per runner and the collector's cap x volume x chunk grid on real launches; getrlimit self-report, status table and buffer bound as oracles",
         "Every zero/non-zero pattern of the seven limit fields with CPUHard below/equal/above CPU (thorough: every field over {0, small, >2^32}) goes through PrepareRLimit into a real launch whose program reports getrlimit for all resources (configured ones exact, unconfigured ones equal to the launcher's); the same through container.Execve as all two-run histories over four limit records on one fresh container (sync before/after exec) and through the ptrace and namespace runners; CPU-limit, file-size-limit, time-bound and memory-bound overruns under every runner must give TLE/OLE/MLE with the measurements; the collector grid N in {0,1,2,4095,4096,65536} x volume in {0,N-1,N,N+1,N+2,N+65536,(16 MiB)} x chunk in {1,4096,1 MiB} must retain <= N+1 bytes, never block or break the writer, and close Done.",
         "Namespace runner: its program is a pid-namespace init, SIGXCPU/SIGXFSZ are discarded by the kernel, so TLE comes from the hard-limit SIGKILL and OLE is not expected there. The container runner has no time/memory bound of its own (measurements only). 'Writer faster than reader' as a timing sweep is sampling and not claimed."),
 "C09": ("exploration",
         "exhaustive enumeration of the finite domain (exit codes x terminating signals x faults x child variants x 4 runner set-ups) on real runs, against the documented status table",
         "Every exit code (quick: 6 representatives, thorough: 0..255), every signal 1..64 whose default action terminates (self-raised with a raw kill and default disposition), five kernel-forced faults, SIGKILL from the host while the program runs, and main-process endings combined with a child that exits / is signalled before, while or after the main process ends, under the ptrace runner, the namespace runner, and a container with sync before and after exec; result status and exit value compared with the README table.",
         "The namespace runner's program is pid 1 of its pid namespace: the kernel discards default-disposition signals it raises itself, so for that runner the signal domain is faults + host SIGKILL. Stop signals and default-ignored signals are outside the property."),
 "C10": ("model_checking",
         "explicit-state model of the host/container RPC (9 actors, every hook point a labelled transition) searched exhaustively per script; every controllable schedule replayed on a real container through verif gates; the implementation's merged event log must be accepted by the model (subset simulation), each call must return its own answer and the environment must stay usable",
         "Model: caller, two host pumps, two container pumps, server, wait goroutine, child, context; capacity-1 channels and socket queues explicit; messages tagged with the call that caused them. Invariants on every reachable state: a reply is consumed only by its own call, ok/kill are never dispatched as top-level commands and no command is swallowed inside an execve, no deadlock, quiescence at the end. Scripts: all single operations over a 17-operation alphabet (ping, open ok/item error/empty, delete error, symlink ok/error, reset, execve rejected before fork / empty args / failing before sync / callback failing / exec failing after sync / running; the same with sync after exec) x 4 schedules of a running execve (exit->result, cancel->kill, result held + cancel first, child ended but unreported + kill first), pairs (thorough: all pairs, triples over the execve family) and a usability suffix (ping + trivial execve). Each script's model is explored completely (states/transitions reported), then replayed on a real container; every hook event of both endpoints plus harness events (SYNCFUNC, CANCEL, RETURN) is fed to the acceptor. Oversized requests are a separate implementation-only family.",
         "Gate granularity is the named point / protocol message; Go's random choice among simultaneously ready select cases is never exercised (exactly one case is made ready). The model is written from container/doc.go and the property, and is itself checked for its invariants before it judges the code. Open finding: requests above the 32 KiB frame make the environment unusable."),
 "C11": ("model_checking",
         "pinned-schedule enumeration on the real runners through gates (verif named points, callbacks, tracer steps, a child gate before setsid): one deterministic execution per cancellation / Destroy instant; shares the C10 model's gate machinery",
         "Container (sync before and after exec, program that never ends / exits 7): cancel before the call, inside the callback, with the host held at send-pre/post(execve), recv(pid), send-pre/post(ok), select, with the result held in flight, with the child ended but unreported, with the container held at started / select / send-pre(result). Tracer: cancel before Trace, with the child held before setsid (with and without callback), inside the callback, at every tracer step (each Debug call). Namespace runner: before Run, inside the callback, while the program provably runs. Destroy: while Execve (both programs) / Open / Ping is in flight, with a host pump or the caller held at each host point, with the container held at dispatch / started / select / reply withheld / after a cancellation's kill was taken. Oracle: the call returns within 10 s with TLE or the genuine verdict, never Runner Error or Disallowed Syscall; no process of the run survives; the environment is usable after a cancel; after Destroy the in-flight call has returned, Destroy returned and the init is gone.",
         "Instants strictly between two consecutive gates are not pinned (a continuous sweep would be sampling). Which instant a Destroy lands on while a side is held relies on a 30 ms pause (it affects which instant is exercised, not the oracle)."),
 "C12": ("exploration",
         "explicit-state search over operation histories on live runners; state = residue vector (descriptor classes, children, goroutines of the host process; descriptors and children of the container init; live program processes), compared with the baseline after every operation",
         "Operations: container runs of process trees (plain, signal-ignoring, double-forked daemon, setsid, setpgid, parent-outliving children, depth up to 3) ending by exit / fatal signal / cancellation with sync before and after exec; callbacks that fail, also after the program has built its tree (sync after exec); launches failing before and after the sync point; open ok / mixed / empty, delete, symlink, reset, ping; build+destroy of a second environment; ptrace and namespace runs of trees with the same endings; failing launches of both. Every single operation is run from the baseline state on a fresh environment, three long chains run all operations in different orders on one environment (thorough: every operation followed by each of eight representatives). After each operation the vector must return to the baseline (polled up to the horizon); every history ends with a Destroy that must return and reap the init.",
         "Because every operation returns to the baseline state, longer histories add no new states (the frontier closes at depth 1); chains and pairs are run anyway. Files left in the container's tmpfs are state, not residue (C13)."),
 "C13": ("exploration",
         "bounded-exhaustive enumeration of residue subsets x tmpfs mounts x credential mode x run/Reset histories on a real container (residue created by a real program), with the host view of every tmpfs as oracle; and of memfd sizes x patterns x reader behaviours x modification attempts by the holder and by a program exec'ed from the sealed file",
         "Reset: every subset of <=2 (thorough: <=3) of 12 residue kinds (deep path, path longer than PATH_MAX, mode-000 directory with content, hidden names, dangling / host / self symlinks, FIFO, socket, hard links, 2000 entries, file held open by a surviving process, read-only directory, weird names) is created by the fsgen probe in all four tmpfs mounts (work dir, /tmp, a tmpfs nested in the work dir, a tmpfs with size options), with and without credential switching, in the histories run-Reset and run-run-Reset; afterwards each tmpfs must be empty seen through /proc/<init>/root and Reset must have returned nil. memfd: sizes {0,1,4095,4096,4097,65536,1 MiB+1} x {zero, 0xff, counter} x reader {whole, 1 byte, 7 bytes at a time}; a reader failing after 0/1/4096/70000 bytes must produce an error and leak nothing; content, offset 0 and all four seals are checked before and after write / pwrite / ftruncate / fallocate / shared writable mmap / F_ADD_SEALS / reopen for writing / reopen with O_TRUNC, by the holder and by a program exec'ed from the sealed file through the container (its own image and a second sealed descriptor).",
         "Writable bind mounts are the caller's directories and are not expected to be emptied. The mount root's own mode/mtime is not an entry."),
 "C14": ("exploration",
         "bounded-exhaustive enumeration of Open / Symlink / Delete batches over item classes on a real container whose tmpfs is prepared from the host side with planted objects; per-index oracle (error iff the class must fail; returned descriptor identical to the object at that path, requested mode, close-on-exec) plus bounded return and protocol health",
         "Open: every batch of length 0..3 (thorough: 0..4) over 14 item classes: new file with and without MkdirAll, missing parent, existing regular file read-only / write+truncate / read-write, planted symlink to a regular file / to a host file / dangling with O_CREAT, FIFO opened for reading and for writing, socket, directory, MkdirAll blocked by a planted file; batches of 253, 254 and 300 new files. Symlink: every batch of length <=3 (4) over {new, existing path, missing parent}. Delete: file, empty directory, non-empty directory, missing path, planted symlink (the target must survive). The k-th result must be an error iff item k's class must fail, a returned file must have the (dev, ino) of the object at path k as seen through /proc/<init>/root, the requested access mode and close-on-exec; the call must return within the horizon; a following Ping must succeed; nothing may be created through a planted link.",
         "Device nodes and unreadable files are not in the alphabet (the init is root in its user namespace; mknod is not permitted there). Objects are planted by the harness through /proc/<init>/root, which has the same effect as a previous program."),
 "C15": ("exploration",
         "bounded-exhaustive enumeration of hostile syscall arguments (one operation per run) and of SIGKILL instants at every tracer step, on a real tracer and tracee; oracle: the result is a verdict about the program, never Runner Error, and the run returns",
         "Every traced path syscall (25) x pointer kind for every path argument {NULL, unmapped, kernel half, odd, short string, 4095/4096/4097/8192 bytes without NUL, string ending exactly at / crossing into a PROT_NONE page} x dirfd encoding {AT_FDCWD, 64-bit garbage, (thorough) -1, closed, zero-extended AT_FDCWD} x {soft-ban-all, allow-all policy}; syscall numbers unknown / negative / x32 / above 2^32; unreadable, short and NULL open_how; and a fork+thread program in which the main process or the most recently reported task is SIGKILLed at the k-th tracer step for every k (each Debug call of the tracer loop, including 'before PTRACE_SETOPTIONS' and 'between trap and skip').",
         "Kill instants are exhaustive at tracer-step granularity, not instruction granularity. The tracee is the freestanding sysrun probe."),
 "C16": ("fault_enumeration",
         "crash-point enumeration: the controller runs in a helper process that parks itself at a chosen verif gate (host or container named point, callback, tracer step) and is SIGKILLed exactly there; the container init and every process of the program's tree are then watched",
         "Container: operation in {ping, open, reset, execve with sync before / after exec of a process tree with a signal-ignoring child, a double-forked daemon, a grandchild and a HUP/TERM-ignoring child} x crash point in {idle after build, host held at send-pre / send-post / recv, inside the callback, send-pre(ok), select, while the program runs, container held at dispatch / started / select / reply withheld, init busy with a long init command during build}. Tracer: the tracing process is SIGKILLed at every tracer step (each Debug call, incl. before PTRACE_SETOPTIONS) of a run of the same kind of tree. Oracle: init and every nonce-carrying process are gone within 10 s with no further action.",
         "A launcher child that has not exec'ed the target is not counted as an untrusted process. Uniformly random kill instants are sampling and are replaced by the gate instants."),
 "C17": ("exploration",
         "schedule enumeration at phase granularity: concurrent runs are cut into gated phases (launch up to the callback; callback released until the program reports; program told to end until the verdict) and every merge of the phase sequences is executed on the real runners; differential oracle against the same run alone",
         "Pairs over {ptrace, namespace runner, container A, container B} (ptrace+ptrace, ptrace+namespace, ptrace+container, namespace+namespace, namespace+container, container A+container B) x all 20 merges of 3+3 phases; each run has its own stdin pipe, private files, exit code and output file, and its program reports its whole descriptor table, which must consist only of the run's own files; verdict, exit value and table must equal those of the same run alone (taken in the same execution). Plus calls queued on one environment while an execve on it is in flight: execve, ping, open, reset, and a ping queued for longer than the ping timeout.",
         "Schedules are exhaustive at phase granularity only; thread-level interleavings inside the fork...exec window are not controlled (the fork lock is observed through its effect on descriptor tables). 16-way free-running stress is sampling and is not claimed."),
 "C18": ("exploration",
         "bounded-exhaustive enumeration of entry sets x query paths and of counter call histories on the exported filehandler API, against an independent definition of coverage",
         "Every entry set of size <=2 (thorough: <=3) over {exact, d/, d/*} x all paths to depth 3 (thorough: 4) is queried with every path incl. '/' and the empty path; every (Writable,Readable,Statable,SoftBan) 4-tuple of sets of size <=1 at depth 2 is checked through Handler.CheckRead/Write/Stat; a real symlink forest covers the raw-or-real clause; every counter table of <=2 names x counts {-1..3} is driven with every call sequence up to length 6 (7). Complete enumeration, no sampling.",
         "Trusted: the independent coverage definition in cmd/vcheck/c18.go (written from the property text). Excluded as ambiguous: '/' queried against '/*'; a hand-inserted map key '/'."),
 "C19": ("exploration",
         "bounded-exhaustive enumeration of send/receive sequences over payload size x descriptor count x credentials x receive buffer on real SOCK_SEQPACKET pairs (raw layer) and of rejected-then-normal scenarios on the gob-framed layer (verif-exported constructor); reference FIFO and descriptor accounting as oracle",
         "Raw: every sequence of <=2 (thorough: <=3, also alternating send/receive) messages over payload {0,1,4095,4096,4097,32Ki,32Ki+1,200Ki} x descriptors {0,1,2,253,254} (254 distinct files, identity by dev/ino) x credentials {none, own, other ids} x receive buffer {4Ki,64Ki,(64, 32Ki)}: each message arrives whole, in order, with the same files in order, close-on-exec set, and the sent credentials, or an error is reported on either side; no descriptor that arrived with any message stays open afterwards; a later message is unaffected by an earlier rejected one. Framed: command and reply types in first-use and in warm position, payloads around the 32 KiB frame, with descriptors and credentials, oversize-then-normal, closed-descriptor-then-normal, normal-oversize-normal, oversize reply then normal.",
         "Both ends live in one process. Open findings: empty payload with ancillary data is delivered as one dummy byte (Go standard library); a rejected first-use message poisons the gob stream."),
}
NA = {
}

def main():
    checks = []
    for pid in ALL:
        if pid not in CHECKS:
            continue
        cat, tech, text, note = CHECKS[pid]
        checks.append({
            "property_id": pid,
            "quick_cmd": "./run %s quick" % pid,
            "thorough_cmd": "./run %s thorough" % pid,
            "evidence_file": "/verif/evidence/%s.json" % pid,
            "replay_cmd_template": "./run %s quick --replay {path}" % pid,
            "engine": "mc",
            "level_claimed": {"category": cat, "text": text, "design_ref": "DESIGN.md section 5, %s" % pid},
            "level_note": note,
            "technique": tech,
        })
    na = []
    for pid in ALL:
        if pid in CHECKS:
            continue
        na.append({"property_id": pid, "reason": NA.get(pid, "check not built yet (work in progress; see DESIGN.md section 9 for the order of work)")})
    m = {
        "version": 1,
        "setup_cmd": "./build.sh",
        "hooks": {
            "guard": "verif",
            "enable": "go build -tags verif (done by ./build.sh for every check; pkg/cgroup is instrumented only through go build -overlay)",
            "baseline_off_cmd": "cd /repo && GOFLAGS=-mod=mod GOPROXY=off go test -json -vet=off -count=1 -timeout 25m ./...",
            "source_commits": HOOK_COMMITS,
            "add_only": True,
        },
        "engines": [
            {"name": "rpcmodel+gate", "path": "/verif/rpcmodel", "serves_properties": ["C10", "C11", "C16"],
             "kind_free_text": "explicit-state model of the container RPC (breadth-first search over all interleavings, invariants, subset-simulation trace acceptor) and the gate controller for the verif-tagged named points (hold / release / wait-for on both endpoints)"},
            {"name": "mc", "path": "/verif/mc", "serves_properties": sorted(CHECKS.keys()),
             "kind_free_text": "hand-written stateless explorer: Choose-based depth-first enumeration of all choice vectors (optional deviation bound), sharded over worker processes, 5x re-run of failing vectors, known-findings classification, evidence writer"},
        ],
        "checks": checks,
        "not_applicable": na,
        "notes": "All checks rebuild bin/vcheck from /repo's working tree with -tags verif. Fixed defects and open findings: /verif/known_findings.json. See DESIGN.md.",
    }
    with open(os.path.join(HERE, "MANIFEST.json"), "w") as f:
        json.dump(m, f, indent=1)
        f.write("\n")
    try:
        import jsonschema
    except ImportError:
        print("jsonschema not importable; run with python3-vt", file=sys.stderr); return
    jsonschema.validate(m, json.load(open("/root/.vp/MANIFEST.schema.json")))
    es = json.load(open("/root/.vp/EVIDENCE.schema.json"))
    for p in sorted(glob.glob(os.path.join(HERE, "evidence", "*.json"))):
        jsonschema.validate(json.load(open(p)), es)
        print("valid", os.path.basename(p))
    print("MANIFEST ok: %d checks, %d not_applicable" % (len(checks), len(na)))

HOOK_COMMITS = ["80feaaa", "b57f636"]
if __name__ == "__main__":
    main()
