// Package mc is a small stateless explorer: an execution is a function that asks for every decision
// through X.Choose; the explorer enumerates all choice vectors depth first (optionally bounded by a
// deviation budget), shards sub-trees over worker processes, re-runs failing vectors, classifies
// failures against the known-findings file and writes the evidence file.
package mc

import (
	"bufio"
	"crypto/sha256"
	"encoding/hex"
	"encoding/json"
	"fmt"
	"hash/fnv"
	"os"
	"os/exec"
	"path/filepath"
	"runtime/debug"
	"sort"
	"strconv"
	"strings"
	"sync"
	"syscall"
	"time"
)

// VerifDir is the directory that holds evidence/, replays/ and known_findings.json.
var VerifDir = func() string {
	if d := os.Getenv("VERIF_DIR"); d != "" {
		return d
	}
	return "/verif"
}()

// Fail is one property failure observed in one execution.
type Fail struct {
	Key    string `json:"key"`
	What   string `json:"what"`
	Detail any    `json:"detail,omitempty"`
	Repro  int    `json:"repro"` // how many of Runs runs of the same vector showed this key
	Runs   int    `json:"runs"`
}

type kv struct {
	K string `json:"k"`
	V any    `json:"v"`
}

// X is one execution.
type X struct {
	prefix   []int
	Choices  []int
	arity    []int
	labels   []string
	notes    []kv
	outcome  string
	fails    []Fail
	evals    int64
	sums     map[string]int64
	w        *worker
	frontier int // >0: abort when a choice beyond this depth is requested
	devLeft  int
	hangKey  string
	hangWhat string
	moreTime time.Duration
	mu       sync.Mutex
}

type frontierSignal struct{}
type nondetSignal struct{ msg string }

// Choose returns a decision in [0,n). It is replayed from the prefix and 0 afterwards.
func (x *X) Choose(n int, label string) int {
	x.mu.Lock()
	defer x.mu.Unlock()
	if n <= 0 {
		panic(nondetSignal{fmt.Sprintf("Choose(%d) at %s", n, label)})
	}
	i := len(x.Choices)
	if x.frontier > 0 && i >= x.frontier {
		panic(frontierSignal{})
	}
	c := 0
	if i < len(x.prefix) {
		c = x.prefix[i]
		if c >= n {
			panic(nondetSignal{fmt.Sprintf("replayed choice %d out of range %d at point %d (%s)", c, n, i, label)})
		}
	}
	x.Choices = append(x.Choices, c)
	x.arity = append(x.arity, n)
	x.labels = append(x.labels, label)
	return c
}

// Deviate is Choose whose non-zero alternatives cost one unit of the deviation budget.
func (x *X) Deviate(n int, label string) int {
	if x.devLeft <= 0 {
		n = 1
	}
	c := x.Choose(n, label)
	if c != 0 {
		x.devLeft--
	}
	return c
}

// Pick chooses one element of a string alphabet and notes it.
func (x *X) Pick(label string, alts ...string) string {
	s := alts[x.Choose(len(alts), label)]
	x.Note(label, s)
	return s
}

// Dry reports that this run only enumerates the frontier in the coordinator: a body that launches processes or
// changes process-wide state must return once its choices are made.
func (x *X) Dry() bool { return x.frontier > 0 }

func (x *X) Bool(label string) bool { return x.Choose(2, label) == 1 }

// Note records a datum of the decoded scenario (goes into samples and replay files).
func (x *X) Note(k string, v any) {
	x.mu.Lock()
	x.notes = append(x.notes, kv{k, v})
	x.mu.Unlock()
}

// Outcome sets the observed outcome class of this execution (vacuity accounting).
func (x *X) Outcome(class string) { x.mu.Lock(); x.outcome = class; x.mu.Unlock() }

// Count adds to the number of evaluations performed by this execution (default: 1 per execution).
func (x *X) Count(n int64) { x.mu.Lock(); x.evals += n; x.mu.Unlock() }

// Add accumulates a named counter that is summed over all executions and written into the coverage object.
func (x *X) Add(name string, n int64) {
	x.mu.Lock()
	if x.sums == nil {
		x.sums = map[string]int64{}
	}
	x.sums[name] += n
	x.mu.Unlock()
}

// Distinct registers a non-trivial (scenario class, outcome) pair.
func (x *X) Distinct(key string) {
	h := fnv.New64a()
	h.Write([]byte(key))
	v := h.Sum64()
	x.w.mu.Lock()
	x.w.distinct[v] = struct{}{}
	x.w.mu.Unlock()
}

// DistinctHash registers an already hashed non-trivial case.
func (x *X) DistinctHash(v uint64) {
	x.w.mu.Lock()
	x.w.distinct[v] = struct{}{}
	x.w.mu.Unlock()
}

// Fail records a violation; key is the class signature used for the known-findings file.
func (x *X) Fail(key, what string, detail any) {
	x.mu.Lock()
	for _, f := range x.fails {
		if f.Key == key {
			x.mu.Unlock()
			return
		}
	}
	x.fails = append(x.fails, Fail{Key: key, What: what, Detail: detail})
	x.mu.Unlock()
}

// Failf is Fail with a formatted description.
func (x *X) Failf(key string, format string, a ...any) {
	x.mu.Lock()
	for _, f := range x.fails {
		if f.Key == key {
			x.mu.Unlock()
			return
		}
	}
	x.mu.Unlock()
	x.Fail(key, fmt.Sprintf(format, a...), nil)
}

// NeedsTime extends the horizon of this one execution by d (a check whose executions are short may contain a few long ones).
func (x *X) NeedsTime(d time.Duration) { x.mu.Lock(); x.moreTime = d; x.mu.Unlock() }

// OnHang declares what it means if this execution does not finish within the horizon.
func (x *X) OnHang(key, what string) { x.mu.Lock(); x.hangKey, x.hangWhat = key, what; x.mu.Unlock() }

func (x *X) Failed() bool { x.mu.Lock(); defer x.mu.Unlock(); return len(x.fails) > 0 }

// NewX makes a stand-alone execution that replays prefix (for helper processes that enumerate a sub-space themselves).
func NewX(prefix []int) *X {
	return &X{prefix: prefix, w: &worker{distinct: map[uint64]struct{}{}, rerun: map[string]bool{}}}
}

// Arity returns the number of alternatives at each choice point of this execution.
func (x *X) Arity() []int { x.mu.Lock(); defer x.mu.Unlock(); return append([]int{}, x.arity...) }

// Fails returns the failures recorded so far.
func (x *X) Fails() []Fail { x.mu.Lock(); defer x.mu.Unlock(); return append([]Fail{}, x.fails...) }

// OutcomeClass returns the outcome class set by the execution.
func (x *X) OutcomeClass() string { x.mu.Lock(); defer x.mu.Unlock(); return x.outcome }

// Evals returns the evaluation count announced through Count.
func (x *X) Evals() int64 { x.mu.Lock(); defer x.mu.Unlock(); return x.evals }

// Spec describes one check.
type Spec struct {
	ID          string
	Level       string // exploration | fault_enumeration | model_checking
	Tier        string
	Rule        string
	Bound       any
	Assumptions []string
	Body        func(x *X)
	Init        func() error         // per process, before any execution
	Fini        func()               // per process, after the last execution
	Extra       func(map[string]any) // coordinator: add coverage keys after the run (model stats etc.)
	SplitDepth  int
	Workers     int
	DevBound    int           // deviation budget for X.Deviate (0 = none allowed)
	Horizon     time.Duration // per execution watchdog
	Reruns      int           // re-runs of a failing vector (default 4 → 5 runs)
	Deadline    time.Duration // internal deadline for the whole run → exhaustive:false
	MinOutcomes int
}

type worker struct {
	mu       sync.Mutex
	distinct map[uint64]struct{}
	rerun    map[string]bool
	hangs    int
	costly   int // failing executions that took about a horizon each (a call that did not return, a stuck tracer)
}

type sample struct {
	Choices []int    `json:"choices"`
	Labels  []string `json:"labels,omitempty"`
	Notes   []kv     `json:"case"`
	Outcome string   `json:"outcome"`
}

type failRec struct {
	Fail
	Choices []int `json:"choices"`
	Notes   []kv  `json:"case"`
}

type shardResult struct {
	Prefix   []int            `json:"prefix"`
	Execs    int64            `json:"execs"`
	Evals    int64            `json:"evals"`
	Outcomes map[string]int   `json:"outcomes"`
	Sums     map[string]int64 `json:"sums,omitempty"`
	Fails    []failRec        `json:"fails,omitempty"`
	Sample   *sample          `json:"sample,omitempty"`
	MaxDepth int              `json:"max_depth"`
	Nondet   string           `json:"nondet,omitempty"`
	Cut      bool             `json:"cut,omitempty"`
	Final    bool             `json:"final,omitempty"`
	Distinct string           `json:"distinct,omitempty"` // hex, 16 chars per hash
}

func (s *Spec) runOnce(w *worker, prefix []int, frontier int) (x *X, status string) {
	x = &X{prefix: prefix, w: w, frontier: frontier, devLeft: s.DevBound}
	done := make(chan string, 1)
	go func() {
		defer func() {
			if r := recover(); r != nil {
				switch v := r.(type) {
				case frontierSignal:
					done <- "frontier"
				case nondetSignal:
					done <- "nondet:" + v.msg
				default:
					x.Fail("panic", fmt.Sprintf("panic in execution: %v", r), string(debug.Stack()))
					done <- "ok"
				}
				return
			}
			done <- "ok"
		}()
		s.Body(x)
	}()
	h := s.Horizon
	if h == 0 {
		h = 120 * time.Second
	}
	timer := time.NewTimer(h)
	defer timer.Stop()
wait:
	select {
	case st := <-done:
		return x, st
	case <-timer.C:
		x.mu.Lock()
		more := x.moreTime
		x.moreTime = 0
		x.mu.Unlock()
		if more > 0 {
			// the execution announced that it is one of the long ones of its check (X.NeedsTime)
			timer.Reset(more)
			goto wait
		}
		x.mu.Lock()
		hk, hw := x.hangKey, x.hangWhat
		x.mu.Unlock()
		if hk == "" {
			return x, "nondet:execution exceeded the horizon without a declared hang meaning"
		}
		x.Fail(hk, hw, nil)
		return x, "hang"
	}
}

// IsHarnessKey: failure classes named <ID>/harness… report that the harness itself could not do its job.
func IsHarnessKey(k string) bool { return strings.Contains(k, "/harness") }

func onlyHarness(fs []Fail) bool {
	if len(fs) == 0 {
		return false
	}
	for _, f := range fs {
		if !IsHarnessKey(f.Key) {
			return false
		}
	}
	return true
}

func keysOf(fs []Fail) map[string]bool {
	m := map[string]bool{}
	for _, f := range fs {
		m[f.Key] = true
	}
	return m
}

// exploreSubtree runs every execution whose choice vector extends prefix.
func (s *Spec) exploreSubtree(w *worker, prefix []int, deadline time.Time) shardResult {
	res := shardResult{Prefix: prefix, Outcomes: map[string]int{}}
	cur := append([]int{}, prefix...)
	for {
		if w.hangs >= 3 || w.costly >= 12 {
			// executions that hang (or fail only after waiting a whole horizon for a call that does not return) cost a
			// horizon each: what was seen is reported, the rest of this worker's share is cut (exhaustive: false)
			res.Cut = true
			return res
		}
		if !deadline.IsZero() && time.Now().After(deadline) {
			res.Cut = true
			return res
		}
		t0 := time.Now()
		x, st := s.runOnce(w, cur, 0)
		if len(x.fails) > 0 && time.Since(t0) >= 8*time.Second {
			w.costly++
		}
		for try := 0; try < 3 && st != "hang" && onlyHarness(x.fails); try++ {
			// the harness could not set the scene (e.g. an environment that did not come up on a loaded machine): that says
			// nothing about the property; pause and run the same vector again
			time.Sleep(time.Duration(try+1) * time.Second)
			x, st = s.runOnce(w, cur, 0)
		}
		if strings.HasPrefix(st, "nondet:") {
			res.Nondet = fmt.Sprintf("%s (vector %v)", st[7:], cur)
			return res
		}
		if st == "hang" {
			w.hangs++
		}
		res.Execs++
		if x.evals == 0 {
			res.Evals++
		} else {
			res.Evals += x.evals
		}
		res.Outcomes[x.outcome]++
		for k, v := range x.sums {
			if res.Sums == nil {
				res.Sums = map[string]int64{}
			}
			res.Sums[k] += v
		}
		if len(x.Choices) > res.MaxDepth {
			res.MaxDepth = len(x.Choices)
		}
		if res.Sample == nil {
			res.Sample = &sample{Choices: x.Choices, Notes: x.notes, Outcome: x.outcome}
		}
		if len(x.fails) > 0 {
			reruns := s.Reruns
			if reruns == 0 {
				reruns = 4
			}
			if st == "hang" {
				reruns = 0 // a hang is not re-run: it costs a whole horizon and leaves a stuck goroutine behind
			}
			counts := map[string]int{}
			fresh := false
			for _, f := range x.fails {
				counts[f.Key] = 1
				if !w.rerun[f.Key] {
					fresh = true
					w.rerun[f.Key] = true
				}
			}
			if !fresh {
				reruns = 0 // this failure class was already re-run in this worker
			}
			for i := 0; i < reruns; i++ {
				y, _ := s.runOnce(w, x.Choices, 0)
				for k := range keysOf(y.fails) {
					if _, ok := counts[k]; ok {
						counts[k]++
					}
				}
			}
			for _, f := range x.fails {
				f.Repro, f.Runs = counts[f.Key], reruns+1
				res.Fails = append(res.Fails, failRec{Fail: f, Choices: x.Choices, Notes: x.notes})
			}
		}
		// next vector: increment the deepest incrementable choice at or beyond the prefix
		i := len(x.Choices) - 1
		for ; i >= len(prefix); i-- {
			if x.Choices[i]+1 < x.arity[i] {
				break
			}
		}
		if i < len(prefix) {
			return res
		}
		cur = append(append([]int{}, x.Choices[:i]...), x.Choices[i]+1)
		if w.hangs >= 3 {
			// executions that hang cost a whole horizon each: what was seen is reported, the rest of this worker's share is cut
			res.Cut = true
			return res
		}
	}
}

// frontierPrefixes enumerates all choice prefixes of length depth (or shorter complete vectors).
func (s *Spec) frontierPrefixes(depth int) ([][]int, error) {
	var out [][]int
	w := &worker{distinct: map[uint64]struct{}{}, rerun: map[string]bool{}}
	cur := []int{}
	for {
		x, st := s.runOnce(w, cur, depth)
		if strings.HasPrefix(st, "nondet:") {
			return nil, fmt.Errorf("%s", st[7:])
		}
		out = append(out, append([]int{}, x.Choices...))
		i := len(x.Choices) - 1
		for ; i >= 0; i-- {
			if x.Choices[i]+1 < x.arity[i] {
				break
			}
		}
		if i < 0 {
			return out, nil
		}
		cur = append(append([]int{}, x.Choices[:i]...), x.Choices[i]+1)
	}
}

const resultMarker = "@@MC "

// WorkerMain is the loop of a worker process: prefixes on stdin, results on stdout.
func (s *Spec) WorkerMain() int {
	// a worker must not outlive its coordinator (e.g. when the whole check is killed by a timeout)
	parent := os.Getppid()
	go func() {
		for {
			time.Sleep(time.Second)
			if os.Getppid() != parent {
				os.Exit(4)
			}
		}
	}()
	// the job and result pipes move to private close-on-exec descriptors: code under test that is handed descriptors
	// 0/1/2 (or writes to them by mistake) must not be able to corrupt the explorer's own protocol
	jobFd, _ := syscall.Dup(0)
	resFd, _ := syscall.Dup(1)
	syscall.CloseOnExec(jobFd)
	syscall.CloseOnExec(resFd)
	if nul, err := syscall.Open("/dev/null", syscall.O_RDWR, 0); err == nil {
		syscall.Dup3(nul, 0, 0)
		syscall.Close(nul)
	}
	syscall.Dup3(2, 1, 0)
	if s.Init != nil {
		if err := s.Init(); err != nil {
			fmt.Fprintf(os.Stderr, "HARNESS-ERROR init: %v\n", err)
			return 3
		}
	}
	w := &worker{distinct: map[uint64]struct{}{}, rerun: map[string]bool{}}
	out := bufio.NewWriter(os.NewFile(uintptr(resFd), "results"))
	in := bufio.NewScanner(os.NewFile(uintptr(jobFd), "jobs"))
	in.Buffer(make([]byte, 1<<20), 1<<20)
	emit := func(r shardResult) {
		b, _ := json.Marshal(r)
		out.WriteString(resultMarker)
		out.Write(b)
		out.WriteByte('\n')
		out.Flush()
	}
	for in.Scan() {
		var req struct {
			Prefix   []int `json:"prefix"`
			Deadline int64 `json:"deadline"`
		}
		if err := json.Unmarshal(in.Bytes(), &req); err != nil {
			fmt.Fprintf(os.Stderr, "HARNESS-ERROR bad request: %v\n", err)
			return 3
		}
		var dl time.Time
		if req.Deadline > 0 {
			dl = time.Unix(0, req.Deadline)
		}
		emit(s.exploreSubtree(w, req.Prefix, dl))
	}
	var sb strings.Builder
	for h := range w.distinct {
		sb.WriteString(fmt.Sprintf("%016x", h))
	}
	emit(shardResult{Final: true, Distinct: sb.String()})
	if s.Fini != nil {
		s.Fini()
	}
	return 0
}

// Finding is one entry of known_findings.json.
type Finding struct {
	Property string `json:"property"`
	Key      string `json:"key"`
	What     string `json:"what"`
	Status   string `json:"status"` // open | fixed
	Commit   string `json:"commit,omitempty"`
}

func loadFindings() []Finding {
	var fs []Finding
	b, err := os.ReadFile(filepath.Join(VerifDir, "known_findings.json"))
	if err != nil {
		return nil
	}
	json.Unmarshal(b, &fs)
	return fs
}

// Main runs the check as coordinator, worker or replayer depending on args and returns the exit code.
func (s *Spec) Main(args []string) int {
	for i, a := range args {
		switch a {
		case "--worker":
			return s.WorkerMain()
		case "--replay":
			if i+1 < len(args) {
				return s.Replay(args[i+1])
			}
		}
	}
	return s.Coordinate()
}

// Replay re-executes one recorded vector without the explorer.
func (s *Spec) Replay(path string) int {
	b, err := os.ReadFile(path)
	if err != nil {
		fmt.Fprintln(os.Stderr, err)
		return 3
	}
	var rec struct {
		Choices []int `json:"choices"`
	}
	if err := json.Unmarshal(b, &rec); err != nil {
		fmt.Fprintln(os.Stderr, err)
		return 3
	}
	if s.Init != nil {
		if err := s.Init(); err != nil {
			fmt.Fprintln(os.Stderr, err)
			return 3
		}
	}
	w := &worker{distinct: map[uint64]struct{}{}, rerun: map[string]bool{}}
	x, st := s.runOnce(w, rec.Choices, 0)
	if s.Fini != nil {
		s.Fini()
	}
	o, _ := json.MarshalIndent(map[string]any{"status": st, "case": x.notes, "outcome": x.outcome, "fails": x.fails}, "", " ")
	// some checks give descriptors 0 and 1 of the process a new meaning in Init: the report goes to stderr
	fmt.Fprintln(os.Stderr, string(o))
	fmt.Println(string(o))
	if len(x.fails) > 0 {
		return 1
	}
	return 0
}

// Coordinate shards the exploration over worker processes and writes evidence.
func (s *Spec) Coordinate() int {
	start := time.Now()
	seed, _ := strconv.Atoi(os.Getenv("VERIF_SEED"))
	if s.SplitDepth == 0 {
		s.SplitDepth = 2
	}
	if s.Workers == 0 {
		s.Workers = 16
	}
	if s.Init != nil {
		if err := s.Init(); err != nil {
			fmt.Fprintf(os.Stderr, "HARNESS-ERROR init: %v\n", err)
			return 3
		}
	}
	prefixes, err := s.frontierPrefixes(s.SplitDepth)
	if s.Fini != nil {
		s.Fini()
	}
	if err != nil {
		fmt.Fprintf(os.Stderr, "HARNESS-ERROR NONDETERMINISM while enumerating the frontier: %v\n", err)
		return 2
	}
	var deadline int64
	if s.Deadline > 0 {
		deadline = start.Add(s.Deadline).UnixNano()
	}
	nw := s.Workers
	if nw > len(prefixes) {
		nw = len(prefixes)
	}
	type job struct{ prefix []int }
	jobs := make(chan []int, len(prefixes))
	for _, p := range prefixes {
		jobs <- p
	}
	close(jobs)
	results := make(chan shardResult, 64)
	var wg sync.WaitGroup
	harnessErr := make(chan string, nw+1)
	self, _ := os.Executable()
	for i := 0; i < nw; i++ {
		wg.Add(1)
		go func(i int) {
			defer wg.Done()
			cmd := exec.Command(self, s.ID, s.Tier, "--worker")
			cmd.Stderr = os.Stderr
			cmd.Env = append(os.Environ(), fmt.Sprintf("VERIF_WORKER=%d", i))
			stdin, _ := cmd.StdinPipe()
			stdout, _ := cmd.StdoutPipe()
			if err := cmd.Start(); err != nil {
				harnessErr <- err.Error()
				return
			}
			rd := bufio.NewReaderSize(stdout, 1<<20)
			readResult := func() (shardResult, bool) {
				for {
					line, err := rd.ReadString('\n')
					if strings.HasPrefix(line, resultMarker) {
						var r shardResult
						if e := json.Unmarshal([]byte(line[len(resultMarker):]), &r); e != nil {
							harnessErr <- "bad worker result: " + e.Error()
							return r, false
						}
						return r, true
					}
					if err != nil {
						return shardResult{}, false
					}
					if line != "" {
						os.Stderr.WriteString(line)
					}
				}
			}
			for p := range jobs {
				req, _ := json.Marshal(map[string]any{"prefix": p, "deadline": deadline})
				if _, err := stdin.Write(append(req, '\n')); err != nil {
					harnessErr <- fmt.Sprintf("worker %d died (prefix %v)", i, p)
					break
				}
				r, ok := readResult()
				if !ok {
					harnessErr <- fmt.Sprintf("worker %d died while exploring prefix %v", i, p)
					cmd.Wait()
					return
				}
				results <- r
			}
			stdin.Close()
			if r, ok := readResult(); ok {
				results <- r
			}
			cmd.Wait()
		}(i)
	}
	go func() { wg.Wait(); close(results) }()

	var execs, evals int64
	outcomes := map[string]int{}
	sums := map[string]int64{}
	distinct := map[string]struct{}{}
	var fails []failRec
	var samples []*sample
	maxDepth := 0
	exhaustive := true
	var nondet []string
	for r := range results {
		if r.Final {
			for i := 0; i+16 <= len(r.Distinct); i += 16 {
				distinct[r.Distinct[i:i+16]] = struct{}{}
			}
			continue
		}
		execs += r.Execs
		evals += r.Evals
		for k, v := range r.Outcomes {
			outcomes[k] += v
		}
		for k, v := range r.Sums {
			sums[k] += v
		}
		fails = append(fails, r.Fails...)
		if r.Sample != nil {
			samples = append(samples, r.Sample)
		}
		if r.MaxDepth > maxDepth {
			maxDepth = r.MaxDepth
		}
		if r.Cut {
			exhaustive = false
		}
		if r.Nondet != "" {
			nondet = append(nondet, r.Nondet)
		}
	}
	close(harnessErr)
	var herrs []string
	for e := range harnessErr {
		herrs = append(herrs, e)
	}

	// classify failures
	findings := loadFindings()
	open := map[string]Finding{}
	for _, f := range findings {
		if f.Property == s.ID && f.Status == "open" {
			open[f.Key] = f
		}
	}
	sort.SliceStable(fails, func(i, j int) bool {
		if len(fails[i].Choices) != len(fails[j].Choices) {
			return len(fails[i].Choices) < len(fails[j].Choices)
		}
		return fmt.Sprint(fails[i].Choices) < fmt.Sprint(fails[j].Choices)
	})
	knownCount := map[string]int{}
	violKeys := map[string]failRec{}
	violCount := map[string]int{}
	unstable := map[string]int{}
	harnessFails := map[string]failRec{}
	for _, f := range fails {
		if _, ok := open[f.Key]; ok {
			knownCount[f.Key]++
			continue
		}
		if IsHarnessKey(f.Key) {
			// persisted through the retries: reported as an error of the machinery (exit 3), never as a violation
			if _, ok := harnessFails[f.Key]; !ok {
				harnessFails[f.Key] = f
			}
			continue
		}
		if f.Repro*2 <= f.Runs && f.Runs > 2 {
			unstable[f.Key]++
			continue
		}
		if _, ok := violKeys[f.Key]; !ok {
			violKeys[f.Key] = f
		}
		violCount[f.Key]++
	}
	for k, f := range harnessFails {
		herrs = append(herrs, fmt.Sprintf("%s (vector %v): %s", k, f.Choices, f.What))
	}
	var kk []string
	for k := range knownCount {
		kk = append(kk, k)
	}
	sort.Strings(kk)
	for _, k := range kk {
		fmt.Printf("KNOWN-FINDING: property=%s %s [key=%s, %d cases]\n", s.ID, open[k].What, k, knownCount[k])
	}
	var vk []string
	for k := range violKeys {
		vk = append(vk, k)
	}
	sort.Strings(vk)
	os.MkdirAll(filepath.Join(VerifDir, "replays"), 0755)
	for _, k := range vk {
		f := violKeys[k]
		b, _ := json.MarshalIndent(map[string]any{"property": s.ID, "tier": s.Tier, "key": f.Key, "what": f.What, "detail": f.Detail,
			"choices": f.Choices, "case": f.Notes, "reproduced": fmt.Sprintf("%d/%d", f.Repro, f.Runs), "cases_with_this_key": violCount[k]}, "", " ")
		sum := sha256.Sum256([]byte(s.ID + k))
		path := filepath.Join(VerifDir, "replays", fmt.Sprintf("%s-%s.json", s.ID, hex.EncodeToString(sum[:6])))
		os.WriteFile(path, b, 0644)
		fmt.Printf("VIOLATION property=%s replay=%s\n", s.ID, path)
		fmt.Printf("  key=%s cases=%d reproduced=%d/%d: %s\n", f.Key, violCount[k], f.Repro, f.Runs, f.What)
	}
	for k, n := range unstable {
		fmt.Printf("NOTE: property=%s unstable observation (not reproduced on re-run, not reported): key=%s cases=%d\n", s.ID, k, n)
	}

	// evidence
	var sm []any
	if len(samples) > 0 {
		sort.Slice(samples, func(i, j int) bool { return fmt.Sprint(samples[i].Choices) < fmt.Sprint(samples[j].Choices) })
		sm = append(sm, samples[0])
		if len(samples) > 2 {
			sm = append(sm, samples[len(samples)/2])
		}
		if len(samples) > 1 {
			sm = append(sm, samples[len(samples)-1])
		}
	}
	cov := map[string]any{
		"evaluations":         evals,
		"executions":          execs,
		"distinct_nontrivial": len(distinct),
		"rule":                s.Rule,
		"samples":             sm,
		"exhaustive":          exhaustive && len(herrs) == 0 && len(nondet) == 0,
		"bound":               s.Bound,
		"max_depth":           maxDepth,
		"distinct_outcomes":   len(outcomes),
		"outcomes":            capOutcomes(outcomes, 40),
		"subtrees":            len(prefixes),
		"known_findings_seen": knownCount,
		"unstable":            unstable,
	}
	for k, v := range sums {
		cov[k] = v
	}
	if s.Extra != nil {
		s.Extra(cov)
	}
	ev := map[string]any{
		"property_id": s.ID,
		"tier":        s.Tier,
		"seed":        seed,
		"level":       s.Level,
		"coverage":    cov,
		"assumptions": s.Assumptions,
		"wall_s":      time.Since(start).Seconds(),
		"violations":  len(violKeys),
	}
	os.MkdirAll(filepath.Join(VerifDir, "evidence"), 0755)
	b, _ := json.MarshalIndent(ev, "", " ")
	os.WriteFile(filepath.Join(VerifDir, "evidence", s.ID+".json"), append(b, '\n'), 0644)

	fmt.Printf("%s %s: executions=%d evaluations=%d distinct_nontrivial=%d outcomes=%d subtrees=%d exhaustive=%v wall=%.1fs\n",
		s.ID, s.Tier, execs, evals, len(distinct), len(outcomes), len(prefixes), cov["exhaustive"], time.Since(start).Seconds())
	if len(violKeys) > 0 {
		// a violation that was reproduced stands, whatever else went wrong in other executions
		if len(nondet) > 0 {
			fmt.Fprintf(os.Stderr, "HARNESS-ERROR NONDETERMINISM: %v\n", nondet)
		}
		if len(herrs) > 0 {
			fmt.Fprintf(os.Stderr, "HARNESS-ERROR: %v\n", herrs)
		}
		return 1
	}
	if len(nondet) > 0 {
		fmt.Fprintf(os.Stderr, "HARNESS-ERROR NONDETERMINISM: %v\n", nondet)
		return 2
	}
	if len(herrs) > 0 {
		fmt.Fprintf(os.Stderr, "HARNESS-ERROR: %v\n", herrs)
		return 3
	}
	min := s.MinOutcomes
	if min == 0 {
		min = 2
	}
	if len(outcomes) < min && execs > 1 {
		fmt.Fprintf(os.Stderr, "HARNESS-ERROR vacuous exploration: %d distinct outcomes from %d executions\n", len(outcomes), execs)
		return 3
	}
	return 0
}

// capOutcomes keeps the n most frequent outcome classes and folds the rest into one entry.
func capOutcomes(m map[string]int, n int) map[string]int {
	if len(m) <= n {
		return m
	}
	type e struct {
		k string
		v int
	}
	var es []e
	for k, v := range m {
		es = append(es, e{k, v})
	}
	sort.Slice(es, func(i, j int) bool {
		if es[i].v != es[j].v {
			return es[i].v > es[j].v
		}
		return es[i].k < es[j].k
	})
	out := map[string]int{}
	rest := 0
	for i, x := range es {
		if i < n {
			out[x.k] = x.v
		} else {
			rest += x.v
		}
	}
	out[fmt.Sprintf("(%d other classes)", len(es)-n)] = rest
	return out
}
